package workload

import (
	"fmt"
	"math"
	"math/big"
	"strconv"
	"strings"

	h "verif/internal/harness"
)

// ---------------------------------------------------------------- W6(a) integers

var IntCenters = []string{
	"0", "2147483647", "-2147483648", "4294967295", "9223372036854775807", "-9223372036854775808", "18446744073709551615",
	"99999999999999999", "999999999999999999", "9999999999999999999", "99999999999999999999", "-99999999999999999999",
	"184467440737095516150", "1844674407370955161", "1844674407370955162", "18446744073709551620", "-18446744073709551615",
	"100000000000000000", "1000000000000000000", "10000000000000000000", "-9999999999999999999", "9223372036854775807000",
	"4294967296", "-4294967296", "65536", "-2147483649",
}

var IntFollowers = []string{"", " ", ",", "]", "}", ".", ".5", "e", "e5", "E5", "x", "-", "+", "0", "\x00", "\xff", "\n", "\t", ":", "\"", "1"}

var IntPrefixes = []string{"", " ", "\n\t"}

var IntShapes = []string{"-\r1", "-\r\n17", "- \r1", "-\r", "-\t\r1", "-", "- 1", "-\n1", "+1", "01", "-01", "00", "-0", "-00", "0", "0.0", "0e0", "1.0", "1e0", "", " ", "a", "-a", "\"1\"", "null", "true", "[1]",
	"1 2", "0x1", "0 ", "-0 ", "-0.0", "-0e1", "1_000", "--1", "-+1", "1-", "1+", "\xd9\xa1", "0b1", "1,2", "-\t1", "- ", "-x", ".1", "-.1", "1.", "-1.", "1e", "1E+", "+0", "+", "\xd9\xa3", "\xef\xbc\x91"}

// W6Ints emits integer literals: every value within +-window of each center x prefixes x
// followers, plus hand shapes, plus random digit strings of every length 1..40.
func W6Ints(window int, nrandom int, seed int64, sink Sink) {
	c := &h.Case{Family: "W6a"}
	c.DescFn = func(c *h.Case) string { return fmt.Sprintf("int literal case #%d", c.P[0]) }
	n := 0
	emit := func(s string) {
		c.Input = []byte(s)
		c.Desc = ""
		c.P[0] = n
		n++
		sink(c)
	}
	for _, cs := range IntCenters {
		ctr, _ := new(big.Int).SetString(cs, 10)
		for d := -window; d <= window; d++ {
			v := new(big.Int).Add(ctr, big.NewInt(int64(d))).String()
			for _, pre := range IntPrefixes {
				for _, f := range IntFollowers {
					emit(pre + v + f)
				}
			}
			if v[0] != '-' {
				emit("-" + v)
			}
		}
	}
	for _, s := range IntShapes {
		for _, f := range []string{"", " ", ",", "5"} {
			emit(s + f)
		}
	}
	r := NewRand(seed, 77)
	for i := 0; i < nrandom; i++ {
		nd := 1 + r.Intn(40)
		var sb strings.Builder
		if r.Intn(3) == 0 {
			sb.WriteByte('-')
		}
		for j := 0; j < nd; j++ {
			ch := byte('0' + r.Intn(10))
			if j == 0 && ch == '0' && nd > 1 && r.Intn(8) != 0 {
				ch = '1'
			}
			sb.WriteByte(ch)
		}
		sb.WriteString(IntFollowers[r.Intn(len(IntFollowers))])
		emit(IntPrefixes[r.Intn(len(IntPrefixes))] + sb.String())
	}
}

// ---------------------------------------------------------------- W6(b,c) floats

// midpoint returns the exact decimal digits D and decimal exponent X such that
// D x 10^X is exactly (f + nextUp(f))/2, for finite positive f.
func midpoint(f float64) (digits string, exp10 int) {
	fr, e := math.Frexp(f) // f = fr * 2^e, fr in [0.5,1)
	m := int64(fr * (1 << 53))
	e -= 53
	bitsf := math.Float64bits(f)
	if bitsf>>52 == 0 { // subnormal: spacing is 2^-1074
		m = int64(bitsf)
		e = -1074
	}
	// f = m*2^e ; nextUp spacing is 2^e (when f is subnormal or normal with this exponent)
	M := new(big.Int).SetInt64(2*m + 1) // midpoint = (2m+1) * 2^(e-1)
	E := e - 1
	return scale2(M, E)
}

// exact returns the exact decimal expansion of f itself.
func exactDecimal(f float64) (string, int) {
	fr, e := math.Frexp(f)
	m := int64(fr * (1 << 53))
	e -= 53
	bitsf := math.Float64bits(f)
	if bitsf>>52 == 0 {
		m = int64(bitsf)
		e = -1074
	}
	return scale2(new(big.Int).SetInt64(m), e)
}

func scale2(M *big.Int, E int) (string, int) {
	if E >= 0 {
		return new(big.Int).Lsh(M, uint(E)).String(), 0
	}
	p5 := new(big.Int).Exp(big.NewInt(5), big.NewInt(int64(-E)), nil)
	s := new(big.Int).Mul(M, p5).String()
	x := E
	// strip trailing zeros
	for len(s) > 1 && s[len(s)-1] == '0' {
		s = s[:len(s)-1]
		x++
	}
	return s, x
}

func incDigits(s string) string {
	b := []byte(s)
	for i := len(b) - 1; i >= 0; i-- {
		if b[i] != '9' {
			b[i]++
			return string(b)
		}
		b[i] = '0'
	}
	return "1" + string(b)
}

func decDigits(s string) string {
	b := []byte(s)
	for i := len(b) - 1; i >= 0; i-- {
		if b[i] != '0' {
			b[i]--
			break
		}
		b[i] = '9'
	}
	for len(b) > 1 && b[0] == '0' {
		b = b[1:]
	}
	return string(b)
}

// Spell writes digits x 10^exp10 in one of several spellings.
func Spell(digits string, exp10 int, style int, r *Rand) string {
	switch style % 6 {
	case 0: // ddd e n
		return digits + "e" + strconv.Itoa(exp10)
	case 1: // d.ddd E n
		if len(digits) == 1 {
			return digits + "E" + strconv.Itoa(exp10)
		}
		return digits[:1] + "." + digits[1:] + "E" + signed(exp10+len(digits)-1, r)
	case 2: // point at a random place with signed exponent
		if len(digits) < 2 {
			return digits + "e" + signed(exp10, r)
		}
		k := 1 + r.Intn(len(digits)-1)
		return digits[:k] + "." + digits[k:] + "e" + signed(exp10+len(digits)-k, r)
	case 3: // plain decimal, no exponent, when not absurdly long
		if exp10 >= 0 && exp10 < 330 {
			return digits + strings.Repeat("0", exp10)
		}
		if exp10 < 0 && -exp10 < len(digits) {
			k := len(digits) + exp10
			return digits[:k] + "." + digits[k:]
		}
		if exp10 < 0 && -exp10 < 400 {
			return "0." + strings.Repeat("0", -exp10-len(digits)) + digits
		}
		return digits + "e" + strconv.Itoa(exp10)
	case 4: // 0.000ddd e n
		z := r.Intn(6)
		return "0." + strings.Repeat("0", z) + digits + "e" + strconv.Itoa(exp10+len(digits)+z)
	default: // trailing zeros on the mantissa
		z := 1 + r.Intn(5)
		return digits + strings.Repeat("0", z) + "E" + strconv.Itoa(exp10-z)
	}
}

func signed(e int, r *Rand) string {
	if e >= 0 && r.Intn(2) == 0 {
		return "+" + strconv.Itoa(e)
	}
	return strconv.Itoa(e)
}

// W6Rows: per power-of-ten row e of the Eisel-Lemire table, perRow random 17/18/19-digit
// (and a few shorter) decimal mantissas w such that the exact midpoint between two adjacent
// floats lies between w*10^e and (w+1)*10^e: inputs at relative distance <~1e-19 from a
// rounding boundary, through exactly that table row.
func W6Rows(perRow int, seed int64, sink Sink, keep ...func(int) bool) {
	c := &h.Case{Family: "W6b"}
	c.DescFn = func(c *h.Case) string {
		return fmt.Sprintf("row e=%d case %d (decimal just below/above a float midpoint)", c.P[0], c.P[1])
	}
	for e := -348; e <= 347; e++ {
		if len(keep) > 0 && keep[0] != nil && !keep[0](e+348) {
			continue
		}
		r := NewRand(seed, uint64(e+1000))
		ten := new(big.Int).Exp(big.NewInt(10), big.NewInt(int64(iabs(e))), nil)
		for i := 0; i < perRow; i++ {
			k := 17 + r.Intn(3)
			if i%10 == 9 {
				k = 1 + r.Intn(16)
			}
			// random k-digit mantissa
			var sb strings.Builder
			for j := 0; j < k; j++ {
				d := r.Intn(10)
				if j == 0 && d == 0 {
					d = 1 + r.Intn(9)
				}
				sb.WriteByte(byte('0' + d))
			}
			w0 := sb.String()
			f, err := strconv.ParseFloat(w0+"e"+strconv.Itoa(e), 64)
			emit := func(digits string, idx int) {
				c.Input = []byte(digits + "e" + strconv.Itoa(e))
				c.Desc = ""
				c.P = [4]int{e, i*8 + idx, 0, 0}
				sink(c)
			}
			if err != nil || f == 0 || math.IsInf(f, 0) {
				// out of range through this row: still a case (overflow / underflow decision)
				emit(w0, 0)
				continue
			}
			// choose randomly the midpoint above or below f
			g := f
			if r.Intn(2) == 0 {
				g = math.Nextafter(f, 0)
				if g == 0 {
					g = f
				}
			}
			md, mx := midpoint(g)
			// W = floor(mid / 10^e) where mid = md * 10^mx
			M, _ := new(big.Int).SetString(md, 10)
			var W *big.Int
			sh := mx - e // mid/10^e = md * 10^(mx-e)
			if sh >= 0 {
				W = new(big.Int).Mul(M, new(big.Int).Exp(big.NewInt(10), big.NewInt(int64(sh)), nil))
			} else {
				W = new(big.Int).Quo(M, new(big.Int).Exp(big.NewInt(10), big.NewInt(int64(-sh)), nil))
			}
			_ = ten
			ws := W.String()
			if len(ws) > 19 || W.Sign() == 0 {
				emit(w0, 0)
				continue
			}
			emit(w0, 0)
			emit(ws, 1)
			emit(incDigits(ws), 2)
			if W.Sign() > 0 {
				emit(decDigits(ws), 3)
			}
		}
	}
}

func iabs(x int) int {
	if x < 0 {
		return -x
	}
	return x
}

var FloatLens = []int{15, 16, 17, 18, 19, 20, 21, 25, 40, 100, 400, 9999}

// RandFloat draws a float64 covering all binades, subnormals, near-max, small integers.
func RandFloat(r *Rand) float64 {
	switch r.Intn(10) {
	case 0: // subnormal
		return math.Float64frombits(1 + r.Uint64()%(1<<52-1))
	case 1: // near max
		return math.Float64frombits(0x7fe0000000000000 | r.Uint64()&(1<<52-1))
	case 2: // small exact integers
		return float64(r.Intn(1 << 20))
	case 3: // around 2^53
		return float64(int64(1<<53) - 500 + int64(r.Intn(1000)))
	case 4: // min normal neighbourhood
		return math.Float64frombits(0x0010000000000000 - 500 + uint64(r.Intn(1000)))
	case 5: // powers of two +-
		f := math.Ldexp(1, r.Intn(2046)-1022)
		if r.Intn(2) == 0 {
			return math.Nextafter(f, 0)
		}
		return f
	default:
		for {
			b := r.Uint64() & 0x7fffffffffffffff
			f := math.Float64frombits(b)
			if !math.IsInf(f, 0) && !math.IsNaN(f) && f != 0 {
				return f
			}
		}
	}
}

// W6Generic: random floats x midpoint expansion truncated to the lengths above x
// {exact, +1, -1 in the last place} x spellings x sign; shortest round-trip spellings;
// exact midpoints with tails beyond the 800-digit limit.
func W6Generic(nfloats int, allSpellings bool, seed int64, sink Sink, keep ...func(int) bool) {
	c := &h.Case{Family: "W6c"}
	c.DescFn = func(c *h.Case) string {
		return fmt.Sprintf("float #%d (bits %#x) variant %d", c.P[0], uint64(c.P[1]), c.P[2])
	}
	for i := 0; i < nfloats; i++ {
		if len(keep) > 0 && keep[0] != nil && !keep[0](i) {
			continue
		}
		r := NewRand(seed, uint64(i)+5000000)
		f := RandFloat(r)
		variant := 0
		emit := func(lit string) {
			if r.Intn(2) == 0 {
				lit = "-" + lit
			}
			c.Input = []byte(lit)
			c.Desc = ""
			c.P = [4]int{i, int(math.Float64bits(f)), variant, 0}
			variant++
			sink(c)
		}
		emitAll := func(digits string, x int) {
			if allSpellings {
				for s := 0; s < 6; s++ {
					emit(Spell(digits, x, s, r))
				}
			} else {
				emit(Spell(digits, x, r.Intn(6), r))
			}
		}
		// shortest round trip and %.17g
		emit(strconv.FormatFloat(f, 'g', -1, 64))
		emit(strconv.FormatFloat(f, 'e', 16, 64))
		emit(strconv.FormatFloat(f, 'e', 17+r.Intn(5), 64))
		md, mx := midpoint(f)
		for _, L := range FloatLens {
			d, x := md, mx
			if L < len(md) {
				d = md[:L]
				x = mx + len(md) - L
			}
			emitAll(d, x)
			emitAll(incDigits(d), x)
			if d != "0" {
				emitAll(decDigits(d), x)
			}
			if L >= len(md) {
				break
			}
		}
		// exact value of f and its immediate decimal neighbours at full length
		ed, ex := exactDecimal(f)
		emitAll(ed, ex)
		// exact midpoint followed by a long zero run and a final 1 (sticky bit beyond 800 digits)
		if i%4 == 0 {
			pad := 801 - len(md) + r.Intn(400)
			if pad < 1 {
				pad = 1
			}
			emit(md + strings.Repeat("0", pad) + "1" + "e" + strconv.Itoa(mx-pad-1))
			emit(md + strings.Repeat("0", pad+1) + "e" + strconv.Itoa(mx-pad-1))
			// just below: midpoint-1ulp-of-decimal followed by 9s beyond 800 digits
			emit(decDigits(md) + strings.Repeat("9", pad+1) + "e" + strconv.Itoa(mx-pad-1))
			// the same three shapes with a total of exactly 798..802 significant digits: the slow path
			// keeps 800 digits, so the final sticky digit sits just inside / exactly at / just outside
			// the buffer (seeded change C04r2-m1 lost the truncation flag only for exactly 800)
			if len(md) < 790 {
				for total := 798; total <= 802; total++ {
					z := total - len(md) - 1
					emit(md + strings.Repeat("0", z) + "1" + "e" + strconv.Itoa(mx-z-1))
					if total%2 == 0 {
						emit(decDigits(md) + strings.Repeat("9", z+1) + "e" + strconv.Itoa(mx-z-1))
					}
					// written with a decimal point after a few digits instead of an exponent shift
					k := 1 + r.Intn(len(md))
					emit(md[:k] + "." + md[k:] + strings.Repeat("0", z) + "1" + "e" + strconv.Itoa(mx+len(md)-k))
				}
			}
			// an integer part of more than 800 digits FOLLOWED BY a fraction (the decimal point is met
			// after digits were already dropped; seeded change C04r2-m2)
			emit(md + strings.Repeat("0", pad) + ".1" + "e" + strconv.Itoa(mx-pad))
			emit(md + strings.Repeat("0", pad) + ".0" + "e" + strconv.Itoa(mx-pad))
			emit(decDigits(md) + strings.Repeat("9", pad) + ".9" + "e" + strconv.Itoa(mx-pad))
			emit("1" + strings.Repeat("0", 800+r.Intn(60)) + ".5e-" + strconv.Itoa(1100+r.Intn(40)))
		}
	}
}

// W6Exponents: every exponent -400..400 with random mantissas, a quarter below 2^53
// (exact-arithmetic tier and its 10^22 / 10^37 limits).
func W6Exponents(perExp int, seed int64, sink Sink, keep ...func(int) bool) {
	c := &h.Case{Family: "W6e"}
	c.DescFn = func(c *h.Case) string { return fmt.Sprintf("exponent %d mantissa case %d", c.P[0], c.P[1]) }
	for e := -400; e <= 400; e++ {
		if len(keep) > 0 && keep[0] != nil && !keep[0](e+400) {
			continue
		}
		r := NewRand(seed, uint64(e+2000))
		for i := 0; i < perExp; i++ {
			var m string
			switch i % 4 {
			case 0:
				m = strconv.FormatUint(r.Uint64()%(1<<53), 10)
			case 1:
				m = strconv.FormatUint(r.Uint64(), 10)
			case 2:
				m = strconv.FormatUint(1+r.Uint64()%999, 10)
			default:
				m = strconv.FormatUint(r.Uint64(), 10) + strconv.FormatUint(r.Uint64(), 10)
			}
			lit := m + "e" + strconv.Itoa(e)
			if i%3 == 0 && len(m) > 1 {
				k := 1 + r.Intn(len(m)-1)
				lit = m[:k] + "." + m[k:] + "E" + signed(e, r)
			}
			c.Input = []byte(lit)
			c.Desc = ""
			c.P = [4]int{e, i, 0, 0}
			sink(c)
		}
	}
}

// W6Special: overflow threshold at every length, min-subnormal halves, zeros, long exponents.
func W6Special(sink Sink) {
	c := &h.Case{Family: "W6s"}
	c.DescFn = func(c *h.Case) string { return fmt.Sprintf("special float literal #%d", c.P[0]) }
	n := 0
	emit := func(s string) {
		for _, sg := range []string{"", "-"} {
			c.Input = []byte(sg + s)
			c.Desc = ""
			c.P[0] = n
			n++
			sink(c)
		}
	}
	// overflow threshold = MaxFloat64 + half ulp, exactly
	md, mx := midpoint(math.MaxFloat64)
	for L := 1; L <= len(md); L++ {
		d := md[:L]
		x := mx + len(md) - L
		emit(d + "e" + strconv.Itoa(x))
		emit(incDigits(d) + "e" + strconv.Itoa(x))
		if d != "0" {
			emit(decDigits(d) + "e" + strconv.Itoa(x))
		}
		if L > 1 {
			emit(d[:1] + "." + d[1:] + "e" + strconv.Itoa(x+L-1))
		}
	}
	emit(md + strings.Repeat("0", 600) + "1e" + strconv.Itoa(mx-601))
	// very long zero runs undone by a five- or six-digit exponent (the exponent matters beyond any
	// clamp a parser applies to it; seeded change C04r7-m1 capped the exponent at 10000)
	for _, Z := range []int{9000, 9990, 9999, 10000, 10001, 12000, 20000, 99999, 100000, 100001} {
		z := strings.Repeat("0", Z)
		emit("0." + z + "25e" + strconv.Itoa(Z+1))
		emit("0." + z + "25e" + strconv.Itoa(Z+310))
		emit("0." + z + "25e" + strconv.Itoa(Z-320))
		emit("25" + z + "e-" + strconv.Itoa(Z))
		emit("25" + z + ".5e-" + strconv.Itoa(Z+1))
	}
	// leading fraction zeros around the 19-digit mantissa window, with exponents that bring the value
	// to the subnormal range, to 1 and to the overflow threshold (seeded change C04r8-m1: a zero
	// mantissa with the truncated flag set and a real exponent made the upper-bound recheck return 0)
	for _, Z := range []int{15, 16, 17, 18, 19, 20, 21, 22, 24, 40, 100, 400, 799, 800, 801} {
		z := strings.Repeat("0", Z)
		for _, E := range []int{Z - 330, Z - 324, Z - 323, Z - 308, Z - 290, Z - 1, Z, Z + 1, Z + 290, Z + 307, Z + 308, Z + 309, Z + 327, Z + 365} {
			emit("0." + z + "1e" + strconv.Itoa(E))
			emit("0." + z + "12e" + strconv.Itoa(E))
			emit("0." + z + "17976931348623157e" + strconv.Itoa(E))
		}
	}
	// exact ties followed by a zero run and one more non-zero digit, INSIDE THE FRACTION, with the
	// last digit before / at / after the 800-digit capacity of the slow path (the digit must still
	// break the tie; seeded change C03r6-m2 lost the truncation flag for fraction digits only)
	for _, tie := range []string{
		"1.00000000000000011102230246251565404236316680908203125",  // 1 + 2^-53
		"0.500000000000000166533453693773481063544750213623046875", // 0.5 + 3*2^-54 (tie above an odd mantissa)
		"9007199254740993.5",  // 2^53 + 1.5
		"4503599627370497.25", // 2^52 + 1.25
		"0.1000000000000000124900090270330610871315002441406250", // tie between 0.1's neighbours
	} {
		digits := len(tie) - 1
		for _, total := range []int{700, 798, 799, 800, 801, 802, 803, 810, 900} {
			if total <= digits+1 {
				continue
			}
			for _, last := range []string{"1", "9", "0"} {
				emit(tie + strings.Repeat("0", total-digits-1) + last)
			}
		}
	}
	// half of the smallest subnormal
	hd, hx := scale2(big.NewInt(1), -1075)
	for L := 1; L <= len(hd); L += 1 + L/20 {
		d := hd[:L]
		x := hx + len(hd) - L
		emit(d + "e" + strconv.Itoa(x))
		emit(incDigits(d) + "e" + strconv.Itoa(x))
		if d != "0" {
			emit(decDigits(d) + "e" + strconv.Itoa(x))
		}
	}
	emit(hd + "e" + strconv.Itoa(hx))
	emit(hd + "0000000001e" + strconv.Itoa(hx-10))
	emit(hd + strings.Repeat("0", 300) + "1e" + strconv.Itoa(hx-301))
	// min normal boundary
	nd, nx := midpoint(math.Float64frombits(0x000fffffffffffff))
	emit(nd + "e" + strconv.Itoa(nx))
	emit(incDigits(nd) + "e" + strconv.Itoa(nx))
	emit(decDigits(nd) + "e" + strconv.Itoa(nx))
	// zeros
	for _, z := range []string{"0", "0.0", "0e0", "0E-0", "0e+0", "0.000", "0e999", "0e-999", "0.0e10", "0e99999999999999999999", "0.00000000000000000000000000000000000000000000000000000e5",
		strings.Repeat("0.", 1) + strings.Repeat("0", 900), "0." + strings.Repeat("0", 900) + "e1000"} {
		emit(z)
	}
	// exponents of 1..25 digits
	for nd := 1; nd <= 25; nd++ {
		emit("1e" + strings.Repeat("9", nd))
		emit("1e-" + strings.Repeat("9", nd))
		emit("1e" + strings.Repeat("0", nd-1) + "5")
		emit("1e+" + strings.Repeat("0", nd) + "10")
		emit("0." + strings.Repeat("0", nd*20) + "1e" + strconv.Itoa(nd*20))
		emit("1" + strings.Repeat("0", nd*20) + "e-" + strconv.Itoa(nd*20))
	}
	// exact expansions of special floats (and of the midpoints around them) truncated at EVERY
	// length, +-1 in the last place: the slow path's shift tables compare digit prefixes with
	// powers of five, so a wrong table digit only shows for literals that agree with such an
	// expansion for 30+ digits (seeded change C04r3-m1: a transposed digit pair in one row)
	specials := []float64{math.SmallestNonzeroFloat64, 2 * math.SmallestNonzeroFloat64, 3 * math.SmallestNonzeroFloat64,
		math.Float64frombits(0x000fffffffffffff), math.Float64frombits(0x0010000000000000), math.Float64frombits(0x0010000000000001),
		math.Ldexp(1, -1073), math.Ldexp(1, -1000), math.Ldexp(1, -60), math.Ldexp(1, -53), 1.0, math.Ldexp(1, 53), math.Ldexp(1, 60), math.Ldexp(1, 1023)}
	for _, f := range specials {
		for variant := 0; variant < 3; variant++ {
			var d string
			var x int
			switch variant {
			case 0:
				d, x = exactDecimal(f)
			case 1:
				d, x = midpoint(f)
			default:
				g := math.Nextafter(f, 0)
				if g == 0 {
					d, x = scale2(big.NewInt(1), -1075)
				} else {
					d, x = midpoint(g)
				}
			}
			step := 1
			for L := 1; L <= len(d); L += step {
				t := d[:L]
				tx := x + len(d) - L
				emit(t + "e" + strconv.Itoa(tx))
				emit(incDigits(t) + "e" + strconv.Itoa(tx))
				if t != "0" && L%3 == 0 {
					emit(decDigits(t) + "e" + strconv.Itoa(tx))
				}
				if L > 60 {
					step = 7
				}
			}
			emit(d + "e" + strconv.Itoa(x))
		}
	}
	// classic hard cases
	for _, s := range []string{"2.2250738585072011e-308", "2.2250738585072012e-308", "2.2250738585072014e-308", "4.9406564584124654e-324", "2.4703282292062327e-324", "2.4703282292062328e-324",
		"1.7976931348623157e308", "1.7976931348623158e308", "1.7976931348623159e308", "1.797693134862315807e308", "1.797693134862315808e308", "9007199254740993", "9007199254740992.5", "9007199254740993.0000000001",
		"1e23", "8.5e22", "9.5e22", "1e22", "1e-22", "1e37", "1e38", "123456789012345678e-5", "4503599627370497.5", "4503599627370496.5", "0.1", "0.2", "0.3", "1.1", "5e-324", "3e-324", "2e-324", "1e-323",
		"6.02214076e23", "3.141592653589793238462643383279", "2.718281828459045", "1.0000000000000002220446049250313", "1.00000000000000011102230246251565404236316680908203125",
		"1.00000000000000011102230246251565404236316680908203124", "1.00000000000000011102230246251565404236316680908203126", "0.000001", "1e-7", "123456789012345678901234567890e-10",
		"179769313486231580793728971405303415079934132710037826936173778980444968292764750946649017977587207096330286416692887910946555547851940402630657488671505820681908902000708383676273854845817711531764475730270069855571366959622842914819860834936475292719074168444365510704342711559699508093042880177904174497791.9999999999999999999999999999999999999999999999999999999999999999999999"} {
		emit(s)
	}
}
