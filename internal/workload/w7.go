package workload

import (
	"fmt"

	h "verif/internal/harness"
)

var StringTemplates = []string{
	`"abc"`, `"a\nb"`, `"\u00e9x"`, `"\ud83d\ude00"`, "\"\xc3\xa9\xe2\x82\xac\xf0\x9f\x98\x80\"", `"\\\""`, `" "`, `"a\/b\b\f\r\t"`, `"\ud800x"`, `"x\uD83D\uDE00y"`, `"\u0041\u00ff"`, `""`,
}

const hexl = "0123456789abcdef"
const hexu = "0123456789ABCDEF"

func u4esc(buf []byte, v int, style int) []byte {
	buf = append(buf, '\\', 'u')
	for sh := 12; sh >= 0; sh -= 4 {
		d := (v >> uint(sh)) & 15
		switch style {
		case 0:
			buf = append(buf, hexl[d])
		case 1:
			buf = append(buf, hexu[d])
		default: // mixed
			if (sh/4+v)&1 == 0 {
				buf = append(buf, hexl[d])
			} else {
				buf = append(buf, hexu[d])
			}
		}
	}
	return buf
}

// W7Units: all 65,536 \uXXXX code units, alone and between plain bytes, in three hex spellings.
func W7Units(sink Sink) {
	c := &h.Case{Family: "W7u"}
	c.DescFn = func(c *h.Case) string { return fmt.Sprintf("\\u%04x style=%d shape=%d", c.P[0], c.P[1], c.P[2]) }
	buf := make([]byte, 0, 64)
	for v := 0; v < 0x10000; v++ {
		for style := 0; style < 3; style++ {
			if style > 0 && v&0xf < 10 && (v>>4)&0xf < 10 && (v>>8)&0xf < 10 && (v>>12) < 10 {
				continue // no letters: spellings coincide
			}
			for shape := 0; shape < 3; shape++ {
				buf = append(buf[:0], '"')
				if shape == 1 {
					buf = append(buf, 'a')
				}
				buf = u4esc(buf, v, style)
				if shape >= 1 {
					buf = append(buf, 'z')
				}
				buf = append(buf, '"')
				if shape == 2 {
					buf = append(buf, ',')
				}
				c.Input = buf
				c.Desc = ""
				c.P = [4]int{v, style, shape, 0}
				sink(c)
			}
		}
	}
}

// W7Surrogates: every high surrogate x partners and every low surrogate x partners;
// grid>0: additionally a (high,low) grid sampled with stride `grid` on the low index
// (grid==1: the full 1,024 x 1,024 grid).
func W7Surrogates(grid int, sink Sink) {
	c := &h.Case{Family: "W7s"}
	c.DescFn = func(c *h.Case) string {
		return fmt.Sprintf("surrogate %#x partner kind %d (%#x)", c.P[0], c.P[1], c.P[2])
	}
	buf := make([]byte, 0, 64)
	emit := func(a, kind, b int) {
		c.Input = buf
		c.Desc = ""
		c.P = [4]int{a, kind, b, 0}
		sink(c)
	}
	for hi := 0xd800; hi < 0xdc00; hi++ {
		partners := []string{`\udc00`, `\udfff`, `\ud800`, `\u0041`, `x`, `\u12`, `\n`, ``, `\`, `\udbff`, `\ue000`, `\uDC`, `\u`, "\xed\xb0\x80"}
		for k, ptn := range partners {
			buf = append(buf[:0], '"')
			buf = u4esc(buf, hi, hi&1)
			buf = append(buf, ptn...)
			buf = append(buf, '"')
			emit(hi, k, 0)
		}
		// six bytes after the high surrogate that are ALMOST a low-surrogate escape: exactly one of
		// the two prefix bytes is wrong (seeded change C06r2-m1 weakened the look-ahead test)
		almost := []string{`\ndead`, `_udead`, `\\dc00`, `\"dead`, `\Udc00`, `xudfff`, `\bdeaf`, ` udc01`, `\/dddd`}
		for k, ptn := range almost {
			buf = append(buf[:0], '"')
			buf = u4esc(buf, hi, (hi>>1)&1)
			buf = append(buf, ptn...)
			buf = append(buf, '"')
			emit(hi, 50+k, 0)
		}
		// a pseudo-random valid low
		lo := 0xdc00 + (hi*7919)%0x400
		buf = append(buf[:0], '"', 'p')
		buf = u4esc(buf, hi, 2)
		buf = u4esc(buf, lo, 1)
		buf = append(buf, 'q', '"')
		emit(hi, 100, lo)
	}
	for lo := 0xdc00; lo < 0xe000; lo++ {
		partners := []string{``, `\ud800`, `\udc00`, `x`, `\u0041`, `\`}
		for k, ptn := range partners {
			buf = append(buf[:0], '"')
			buf = u4esc(buf, lo, lo&1)
			buf = append(buf, ptn...)
			buf = append(buf, '"')
			emit(lo, 200+k, 0)
		}
	}
	if grid > 0 {
		for hi := 0xd800; hi < 0xdc00; hi++ {
			for lo := 0xdc00 + (hi % grid); lo < 0xe000; lo += grid {
				buf = append(buf[:0], '"')
				buf = u4esc(buf, hi, 0)
				buf = u4esc(buf, lo, 0)
				buf = append(buf, '"')
				emit(hi, 300, lo)
			}
		}
	}
}

// W7Templates: every byte at every position of the string templates (replace / insert /
// truncate+append), with a few contexts around the token.
func W7Templates(sink Sink) {
	c := &h.Case{Family: "W7t"}
	ops := []string{"seed", "replace", "insert", "truncate+append"}
	c.DescFn = func(c *h.Case) string {
		return fmt.Sprintf("template %q %s pos=%d byte=0x%02x", StringTemplates[c.P[0]], ops[c.P[1]], c.P[2], c.P[3])
	}
	buf := make([]byte, 0, 128)
	pres := []string{"", " ", "\n\t"}
	sufs := []string{"", ",", " x", `"`}
	for ti, s := range StringTemplates {
		emit := func(op, pos int, b byte, body []byte) {
			for _, pre := range pres {
				for _, suf := range sufs {
					buf = append(buf[:0], pre...)
					buf = append(buf, body...)
					buf = append(buf, suf...)
					c.Input = buf
					c.Desc = ""
					c.P = [4]int{ti, op, pos, int(b)}
					sink(c)
				}
			}
		}
		body := make([]byte, 0, 64)
		emit(0, 0, 0, []byte(s))
		for i := 0; i < len(s); i++ {
			for b := 0; b < 256; b++ {
				body = append(body[:0], s...)
				body[i] = byte(b)
				emit(1, i, byte(b), body)
			}
		}
		for i := 0; i <= len(s); i++ {
			for b := 0; b < 256; b++ {
				body = append(body[:0], s[:i]...)
				body = append(body, byte(b))
				body = append(body, s[i:]...)
				emit(2, i, byte(b), body)
				body = append(body[:0], s[:i]...)
				body = append(body, byte(b))
				emit(3, i, byte(b), body)
			}
		}
	}
}

// W7Generated: n random string tokens (escapes, \u incl. surrogates, raw bytes, runes),
// some long enough to cross several growth boundaries.
func W7Generated(n int, seed int64, sink Sink) {
	c := &h.Case{Family: "W7g"}
	c.DescFn = func(c *h.Case) string { return fmt.Sprintf("generated string #%d seed=%d", c.P[0], seed) }
	for i := 0; i < n; i++ {
		r := NewRand(seed, uint64(i)+9000000)
		g := &Gen{R: r, Faults: i%5 == 0}
		var s string
		switch i % 4 {
		case 0:
			s = g.Str()
		default:
			// concatenate several generated bodies into one token
			s = `"`
			for k, m := 0, 1+r.Intn(6); k < m; k++ {
				t := g.Str()
				if len(t) >= 2 && t[0] == '"' && t[len(t)-1] == '"' {
					s += t[1 : len(t)-1]
				}
			}
			s += `"`
		}
		switch r.Intn(5) {
		case 0:
			s = " " + s
		case 1:
			s = s + ","
		case 2:
			s = s + `"tail"`
		}
		c.Input = []byte(s)
		c.Desc = ""
		c.P[0] = i
		sink(c)
	}
}

// W7Positions: plain strings of every length 1..maxLen with one special element (escape,
// control byte, quote, high byte, \\u escape, surrogate pair) at every offset, and a second one
// at a few later offsets: scanners with chunked or unrolled fast paths are position sensitive.
func W7Positions(maxLen int, sink Sink) {
	c := &h.Case{Family: "W7p"}
	specials := []string{`\n`, `\"`, `\\`, "\x1f", "\x00", `"`, "\xff", "\xc3\xa9", `\u00e9`, `\ud83d\ude00`, `\ud800`, `\`, `\x`, "\x7f", "\x20"}
	fill := "abcdefghijklmnopqrstuvwxyz0123456789ABCDEFGHIJKLMNOPQRSTUVWXYZ-_.,;:!?()[]{}"
	c.DescFn = func(c *h.Case) string {
		return fmt.Sprintf("plain string of length %d with %q at offset %d and a second special at %d", c.P[0], specials[c.P[1]], c.P[2], c.P[3])
	}
	buf := make([]byte, 0, 256)
	for L := 1; L <= maxLen; L++ {
		for si, sp := range specials {
			for pos := 0; pos <= L; pos++ {
				for second := -1; second <= L; second += 1 + L/4 {
					if second >= 0 && second < pos {
						continue
					}
					buf = append(buf[:0], '"')
					buf = append(buf, fill[:pos]...)
					buf = append(buf, sp...)
					if second >= pos {
						buf = append(buf, fill[pos:second]...)
						buf = append(buf, specials[(si+5)%len(specials)]...)
						buf = append(buf, fill[second:L]...)
					} else {
						buf = append(buf, fill[pos:L]...)
					}
					buf = append(buf, '"')
					c.Input = buf
					c.Desc = ""
					c.P = [4]int{L, si, pos, second}
					sink(c)
				}
			}
		}
	}
}

// W7Triples: every sequence of 2, 3 and 4 unicode escapes over boundary code units of each
// class (non-surrogate, high, low): pairing decisions are made with look-ahead, so a mistake
// can depend on what FOLLOWS a non-pairing pair (seeded change C06r3-m1 replaced two
// non-pairing surrogates together and so broke a pair that started at the second one).
func W7Triples(sink Sink) {
	units := []int{0x0041, 0xd7ff, 0xd800, 0xdbff, 0xdc00, 0xdfff, 0xe000, 0xd83d, 0xde00}
	c := &h.Case{Family: "W7x"}
	c.DescFn = func(c *h.Case) string { return fmt.Sprintf("escape sequence #%d of length %d", c.P[0], c.P[1]) }
	buf := make([]byte, 0, 64)
	n := 0
	var rec func(prefix []int, left int)
	rec = func(prefix []int, left int) {
		if left == 0 {
			for shape := 0; shape < 2; shape++ {
				buf = append(buf[:0], '"')
				if shape == 1 {
					buf = append(buf, 'a')
				}
				for i, u := range prefix {
					buf = u4esc(buf, u, (i+n)%3)
				}
				if shape == 1 {
					buf = append(buf, 'z')
				}
				buf = append(buf, '"')
				c.Input = buf
				c.Desc = ""
				c.P = [4]int{n, len(prefix), 0, 0}
				n++
				sink(c)
			}
			return
		}
		for _, u := range units {
			rec(append(prefix, u), left-1)
		}
	}
	for L := 2; L <= 4; L++ {
		rec(nil, L)
	}
}

// W7PositionsInDocs: the position-sweep strings as values and keys inside documents (the skip and
// handler machines have their own string states; a chunked fast path there would be position
// sensitive too).
func W7PositionsInDocs(maxLen int, sink Sink) {
	wrap := [][2]string{{"[", "]"}, {`[0,`, `,1]`}, {`{"k":`, "}"}, {`{"a":0,"k":`, `,"z":1}`}, {"{", ":1}"}, {`{"a":0,`, ":1}"}, {`[{"a":[`, "]}]"}}
	c := &h.Case{Family: "W7pd"}
	c.DescFn = func(c *h.Case) string {
		return fmt.Sprintf("position-sweep string #%d wrapped as %q..%q", c.P[0], wrap[c.P[1]][0], wrap[c.P[1]][1])
	}
	buf := make([]byte, 0, 256)
	n := 0
	W7Positions(maxLen, func(cs *h.Case) {
		n++
		if cs.P[3] >= 0 && n%2 == 0 { // every second two-special case is enough inside documents
			return
		}
		for wi, w := range wrap {
			buf = append(buf[:0], w[0]...)
			buf = append(buf, cs.Input...)
			buf = append(buf, w[1]...)
			c.Input = buf
			c.Desc = ""
			c.P = [4]int{n, wi, 0, 0}
			sink(c)
		}
	})
}

// W7Adjacent: every byte value (except quote and backslash) immediately BEFORE and AFTER each special element of a
// string (closing quote, short escape, escaped backslash, unicode escape, raw control bytes), at
// every alignment 0..16, alone and followed by more data. Word-at-a-time scanners locate special
// bytes with carry/borrow tricks whose false positives depend on the VALUE of the neighbouring
// byte (seeded change C06r5-m2: '#' before the quote and ']' before a backslash).
func W7Adjacent(aligns []int, tails []string, sink Sink) {
	specials := []string{`"`, `\n`, `\\`, `\u0041`, "\x1f", "\x00", `\"`, `\/`, `\b`, `\f`, `\r`, `\t`} // every short escape: each has its own state in the string machines (C06r9-m1)
	fill := "abcdefghijklmnopqrstuvwxyz"
	c := &h.Case{Family: "W7a"}
	c.DescFn = func(c *h.Case) string {
		side := "before"
		if c.P[3]&1 == 1 {
			side = "after"
		}
		return fmt.Sprintf("byte 0x%02x %s %q at alignment %d, tail #%d", c.P[0], side, specials[c.P[1]], c.P[2], c.P[3]>>1)
	}
	buf := make([]byte, 0, 128)
	for b := 0x00; b <= 0xff; b++ { // control bytes too: they must be rejected wherever they stand (C07r5-m2)
		if b == '"' || b == 0x5c {
			continue
		}
		for si, sp := range specials {
			for _, al := range aligns {
				for side := 0; side < 2; side++ {
					for ti, tail := range tails {
						buf = append(buf[:0], '"')
						buf = append(buf, fill[:al]...)
						if side == 0 {
							buf = append(buf, byte(b))
						}
						if si > 0 {
							buf = append(buf, sp...)
						}
						if side == 1 {
							if si == 0 {
								continue // nothing comes after the closing quote inside the token
							}
							buf = append(buf, byte(b))
						}
						buf = append(buf, '"')
						buf = append(buf, tail...)
						c.Input = buf
						c.Desc = ""
						c.P = [4]int{b, si, al, ti<<1 | side}
						sink(c)
					}
				}
			}
		}
	}
}

var W7AdjAligns = []int{0, 1, 2, 3, 4, 5, 6, 7, 8, 9, 10, 11, 12, 13, 14, 15, 16}
var W7AdjTails = []string{"", `,"trailing-data-0123456789"]`}

// W7AdjacentInDocs: the same strings as array elements, member values and keys.
func W7AdjacentInDocs(sink Sink) {
	wrap := [][2]string{{"[", `,"trailing-data-0123456789"]`}, {`{"k":`, `,"trailing-data":"0123456789"}`}, {"{", `:1,"trailing-data":"0123456789"}`}, {`[0,`, "]"}}
	c := &h.Case{Family: "W7ad"}
	c.DescFn = func(c *h.Case) string {
		return fmt.Sprintf("adjacent-byte string (byte 0x%02x, special #%d, alignment %d, side %d) wrapped as %q..%q", c.P[0], c.P[1], c.P[2], c.P[3]>>4, wrap[c.P[3]&15][0], wrap[c.P[3]&15][1])
	}
	buf := make([]byte, 0, 256)
	W7Adjacent([]int{0, 3, 6, 7, 8, 15}, []string{""}, func(cs *h.Case) {
		for wi, w := range wrap {
			buf = append(buf[:0], w[0]...)
			buf = append(buf, cs.Input...)
			buf = append(buf, w[1]...)
			c.Input = buf
			c.Desc = ""
			c.P = [4]int{cs.P[0], cs.P[1], cs.P[2], (cs.P[3]&1)<<4 | wi}
			sink(c)
		}
	})
}

// W7LongPositions: the position sweep for LONG strings: lengths around 100, 128, 256, 512, 1024,
// 4096 and 8192 with one special element at the start, the end, around the middle and around every
// multiple of 64 near the end (a fast path that only engages beyond a length threshold has its own
// validation to forget; seeded change C03r6-m1: strings of 128+ bytes skip the control-byte check).
func W7LongPositions(sink Sink) {
	c := &h.Case{Family: "W7lp"}
	specials := []string{`\n`, "\x1f", "\x00", "\x0a", `"`, "\xff", `\u00e9`, `\ud800`, `\`, `\x`, "\x7f", `\\`, `\\\"`, `\\\\`} // escaped backslashes right before the closing quote or around a 64-byte boundary (C01r8-m1)
	c.DescFn = func(c *h.Case) string {
		return fmt.Sprintf("plain string of length %d with %q at offset %d, tail #%d", c.P[0], specials[c.P[1]], c.P[2], c.P[3])
	}
	fill := "abcdefghijklmnopqrstuvwxyz0123456789ABCDEFGHIJKLMNOPQRSTUVWXYZ-_.,;:!?()[]{}"
	tails := []string{"", `,"next"]`}
	var lens []int
	for _, B := range []int{100, 128, 256, 512, 1024, 4096, 8192} {
		lens = append(lens, B-2, B-1, B, B+1, B+2)
	}
	buf := make([]byte, 0, 8400)
	for _, L := range lens {
		posSet := map[int]bool{0: true, 1: true, L / 2: true, L - 2: true, L - 1: true, L: true}
		for m := 64; m <= L; m *= 2 {
			posSet[m-1], posSet[m], posSet[m+1] = true, true, true
		}
		for pos := range posSet {
			if pos < 0 || pos > L {
				continue
			}
			for si, sp := range specials {
				for ti, tail := range tails {
					buf = append(buf[:0], '"')
					for i := 0; i < pos; i++ {
						buf = append(buf, fill[i%len(fill)])
					}
					buf = append(buf, sp...)
					for i := pos; i < L; i++ {
						buf = append(buf, fill[i%len(fill)])
					}
					buf = append(buf, '"')
					buf = append(buf, tail...)
					c.Input = buf
					c.Desc = ""
					c.P = [4]int{L, si, pos, ti}
					sink(c)
				}
			}
		}
	}
}

// W7LongPositionsInDocs: the same strings as array elements, member values and keys.
func W7LongPositionsInDocs(sink Sink) {
	wrap := [][2]string{{"[", `,"next"]`}, {`{"k":`, `,"z":1}`}, {"{", `:1}`}, {`[0,`, "]"}}
	c := &h.Case{Family: "W7ld"}
	c.DescFn = func(c *h.Case) string {
		return fmt.Sprintf("long position-sweep string (length %d, special #%d at %d) wrapped as %q..%q", c.P[0], c.P[1], c.P[2], wrap[c.P[3]][0], wrap[c.P[3]][1])
	}
	buf := make([]byte, 0, 8500)
	W7LongPositions(func(cs *h.Case) {
		if cs.P[3] != 0 {
			return
		}
		for wi, w := range wrap {
			if cs.P[0] > 1100 && wi >= 2 {
				continue
			}
			buf = append(buf[:0], w[0]...)
			buf = append(buf, cs.Input...)
			buf = append(buf, w[1]...)
			c.Input = buf
			c.Desc = ""
			c.P = [4]int{cs.P[0], cs.P[1], cs.P[2], wi}
			sink(c)
		}
	})
}

// W7Runs: uninterrupted runs of 0..70 unicode escapes followed directly by an escaped surrogate
// pair (and by a lone high surrogate), then 0..2 more escapes: a decoder that takes escapes in
// batches, or looks at a bounded window, splits the pair at some alignment (seeded change
// C06r8-m2: 16 code units per batch inside a 96-byte window).
func W7Runs(sink Sink) {
	c := &h.Case{Family: "W7r"}
	c.DescFn = func(c *h.Case) string {
		return fmt.Sprintf("%d unicode escapes, then tail #%d, then %d more, wrapping %d", c.P[0], c.P[1], c.P[2], c.P[3])
	}
	tails := []string{`\ud83d\ude00`, `\ud83d`, `\ud83d\u0041`, `\udbff\udfff`, `\ud800\udc00x`}
	wraps := [][2]string{{`"`, `"`}, {`["`, `",1]`}, {`{"`, `":1}`}, {`{"k":"`, `"}`}}
	units := []string{`\u0041`, `\u00e9`, `\u4e2d`}
	for n := 0; n <= 70; n++ {
		for ti, tl := range tails {
			for more := 0; more <= 2; more++ {
				for wi, w := range wraps {
					if wi > 0 && n%3 != 0 {
						continue
					}
					var b []byte
					b = append(b, w[0]...)
					for i := 0; i < n; i++ {
						b = append(b, units[(i+n)%3]...)
					}
					b = append(b, tl...)
					for i := 0; i < more; i++ {
						b = append(b, units[i%3]...)
					}
					b = append(b, w[1]...)
					c.Input = b
					c.Desc = ""
					c.P = [4]int{n, ti, more, wi}
					sink(c)
				}
			}
		}
	}
}
