package workload

// HistDoc draws one document for a call history (W9): generated documents with and
// without faults, nestings of assorted depths (so that stack buffers grow, shrink and are
// left dirty by aborted parses), truncations and the hand seeds.
func HistDoc(r *Rand, seed int64, allowHuge bool) (doc []byte, kind string) {
	k := r.Intn(100)
	switch {
	case k < 40:
		return W3Doc(seed, r.Uint64()%5000000), "generated(faulty)"
	case k < 55:
		return W3Valid(seed, r.Uint64()%5000000), "generated(valid)"
	case k < 72:
		depths := []int{1, 2, 3, 5, 8, 13, 21, 34, 40, 64, 100, 257, 500, 1024, 2000}
		d := depths[r.Intn(len(depths))]
		pat := NestPatterns[r.Intn(len(NestPatterns))]
		inner := NestInner[r.Intn(len(NestInner))]
		closers := d
		switch r.Intn(4) {
		case 0:
			closers = 0
		case 1:
			closers = r.Intn(d + 1)
		}
		return BuildNest(pat, d, inner, closers), "nest"
	case k < 75:
		if !allowHuge {
			return BuildNest(NestPatterns[r.Intn(len(NestPatterns))], 3000, "0", 3000), "nest"
		}
		d := []int{9999, 10000, 10001, 10002}[r.Intn(4)]
		pat := NestPatterns[r.Intn(12)]
		closers := d
		if r.Intn(3) == 0 {
			closers = r.Intn(d)
		}
		return BuildNest(pat, d, []string{"", "0"}[r.Intn(2)], closers), "nest-at-limit"
	case k < 88:
		doc := W3Valid(seed, r.Uint64()%5000000)
		if len(doc) > 1 {
			doc = doc[:r.Intn(len(doc))]
		}
		return doc, "truncated"
	default:
		s := SeedsCached()
		return []byte(s[r.Intn(len(s))]), "seed"
	}
}

var cachedSeeds []string

// SeedsCached returns Seeds() computed once (single-threaded use, or call once before starting goroutines).
func SeedsCached() []string {
	if cachedSeeds == nil {
		cachedSeeds = Seeds()
	}
	return cachedSeeds
}
