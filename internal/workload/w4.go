package workload

import (
	"bytes"
	"fmt"
	"strings"

	h "verif/internal/harness"
)

// NestUnit is one way of opening a nesting level (one fcall site of the machines).
type NestUnit struct {
	Open, Close string
}

var NestUnits = []NestUnit{
	{"[", "]"},           // array as first element
	{"[0,", "]"},         // array after comma
	{`{"a":`, "}"},       // value of first member
	{`{"a":0,"b":`, "}"}, // value of later member
	{"[ ", " ]"},         // with whitespace
	{`{ "k" : `, ` }`},   // with whitespace
	{"[", ",0]"},         // followed by a sibling
	{`{"a":`, `,"z":0}`}, // followed by a sibling member
	{`{"\n":`, "}"},      // escaped key
	{`["x",`, "]"},       // after a string element
	// after a CONTAINER sibling: decoders that pool per-level state hand the state of the finished
	// sibling to the next one (seeded change C10r6-m1: a pooled child reader forgets its depth)
	{"[[],", "]"},
	{"[{},", "]"},
	{`{"a":{},"b":`, "}"},
	{`{"a":[1],"b":`, "}"},
}

// NestPatterns are cyclic sequences of unit indices: pure arrays, pure objects, mixtures.
var NestPatterns = [][]int{
	{0}, {1}, {2}, {3}, {4}, {5}, {6}, {7}, {8}, {9},
	{0, 2}, {2, 0}, {1, 3}, {0, 0, 2}, {2, 2, 0}, {0, 2, 1, 3}, {6, 7}, {4, 5},
	{10}, {12}, {11, 13},
}

// NestPatternsDeepQuick: the patterns run at the depth limit in the quick tier.
var NestPatternsDeepQuick = append(append([][]int{}, NestPatterns[:12]...), NestPatterns[18:]...)

var _ = func() int {
	if len(NestPatterns) != 21 {
		panic("NestPatterns changed: adjust NestPatternsDeepQuick")
	}
	return 0
}()

var NestInner = []string{"", "0", `"s"`, "null", "[]", "{}"}

// BuildNest builds a document nesting `depth` containers following pattern, with the given
// innermost value ("" = the innermost container is empty), closing only `closers` of them
// (closers == depth: complete document).
func BuildNest(pattern []int, depth int, inner string, closers int) []byte {
	var b bytes.Buffer
	for i := 0; i < depth; i++ {
		u := NestUnits[pattern[i%len(pattern)]]
		if i == depth-1 && inner == "" {
			// innermost container is empty: use the bare bracket of its kind
			if u.Open[0] == '[' {
				b.WriteString("[")
			} else {
				b.WriteString("{")
			}
			continue
		}
		b.WriteString(u.Open)
	}
	b.WriteString(inner)
	for i := depth - 1; i >= depth-closers && i >= 0; i-- {
		u := NestUnits[pattern[i%len(pattern)]]
		if i == depth-1 && inner == "" {
			if u.Open[0] == '[' {
				b.WriteString("]")
			} else {
				b.WriteString("}")
			}
			continue
		}
		b.WriteString(u.Close)
	}
	return b.Bytes()
}

// MaxNesting returns the deepest container nesting of a document built from nest units (strings
// in the units contain no brackets).
func MaxNesting(doc []byte) int {
	d, m := 0, 0
	for _, b := range doc {
		switch b {
		case '[', '{':
			d++
			if d > m {
				m = d
			}
		case ']', '}':
			d--
		}
	}
	return m
}

// W4 emits depth-boundary documents: every pattern x depth in depths x inner x {closed,
// unclosed, half closed} plus a trailing-garbage variant.
func W4(depths []int, patterns [][]int, inners []string, sink Sink) {
	c := &h.Case{Family: "W4"}
	variants := []string{"closed", "unclosed", "half-closed", "closed+garbage", "closed+ws"}
	c.DescFn = func(c *h.Case) string {
		return fmt.Sprintf("nest pattern=%v depth=%d inner=%q variant=%s", patterns[c.P[0]], c.P[1], inners[c.P[2]], variants[c.P[3]])
	}
	for pi, pat := range patterns {
		for _, d := range depths {
			for ii, inner := range inners {
				// containers as innermost value add one level
				total := d
				if inner == "[]" || inner == "{}" {
					total = d + 1
				}
				for vi := range variants {
					var doc []byte
					switch vi {
					case 0:
						doc = BuildNest(pat, d, inner, d)
					case 1:
						doc = BuildNest(pat, d, inner, 0)
					case 2:
						doc = BuildNest(pat, d, inner, d/2)
					case 3:
						doc = append(BuildNest(pat, d, inner, d), " x"...)
					case 4:
						doc = append(BuildNest(pat, d, inner, d), " \n"...)
					}
					c.Input = doc
					c.Desc = ""
					c.Deep = total > 10000 || MaxNesting(doc) > 10000
					c.P = [4]int{pi, d, ii, vi}
					sink(c)
				}
			}
		}
	}
}

// BuildNestFinal nests depth-1 levels of pattern and then one level opened by unit `final`.
func BuildNestFinal(pattern []int, depth int, final int, inner string) []byte {
	var b bytes.Buffer
	u := NestUnits[final]
	for i := 0; i < depth-1; i++ {
		b.WriteString(NestUnits[pattern[i%len(pattern)]].Open)
	}
	if inner == "" {
		b.WriteByte(u.Open[0])
		b.WriteByte(u.Close[len(u.Close)-1])
	} else {
		b.WriteString(u.Open)
		b.WriteString(inner)
		b.WriteString(u.Close)
	}
	for i := depth - 2; i >= 0; i-- {
		b.WriteString(NestUnits[pattern[i%len(pattern)]].Close)
	}
	return b.Bytes()
}

// W4Final: at the depth limit the LAST opener is varied over every nest unit (every call site of
// the machines' push action), on six base patterns: total depth 10,000 (must be accepted) and
// 10,001 (must be rejected). The periodic patterns of W4 put only one unit kind at a given depth
// (seeded change C01r5-m2: one of 14 generated copies of the depth guard typed '>' for '>=').
func W4Final(sink Sink) {
	bases := [][]int{{0}, {1}, {2}, {3}, {0, 2}, {1, 3}}
	inners := []string{"", "0", "[]", "{}"} // a container as the innermost value is one more level (C02r7-m1: an empty-array fast path that skips the push and with it the depth check)
	c := &h.Case{Family: "W4F"}
	c.DescFn = func(c *h.Case) string {
		return fmt.Sprintf("nest pattern=%v, total depth %d: the last opener before the innermost value %q is unit %q", bases[c.P[0]], c.P[1], inners[c.P[3]], NestUnits[c.P[2]].Open)
	}
	for bi, base := range bases {
		for _, total := range []int{10000, 10001} {
			for ui := range NestUnits {
				for ii, inner := range inners {
					d := total
					if inner == "[]" || inner == "{}" {
						d = total - 1
					}
					c.Input = BuildNestFinal(base, d, ui, inner)
					c.Desc = ""
					c.Deep = MaxNesting(c.Input) > 10000
					c.P = [4]int{bi, total, ui, ii}
					sink(c)
				}
			}
		}
	}
}

// W4 standard parameter sets.
func W4Quick(sink Sink) {
	W4([]int{9999, 10000, 10001, 10003}, NestPatternsDeepQuick, []string{"", "0"}, sink)
	W4([]int{1, 2, 3, 17, 100}, NestPatterns, NestInner, sink)
	W4Final(sink)
}

func W4Thorough(sink Sink) {
	W4([]int{9998, 9999, 10000, 10001, 10002, 20000}, NestPatterns, NestInner, sink)
	W4([]int{1, 2, 3, 4, 5, 17, 100, 1000, 5000}, NestPatterns, NestInner, sink)
	W4Final(sink)
}

// W5 megabyte tokens and very deep documents (C10, C20).
type BigDoc struct {
	Name string
	Make func(n int) []byte
}

var BigDocs = []BigDoc{
	{"digits", func(n int) []byte { return []byte(strings.Repeat("7", n)) }},
	{"zero-digits", func(n int) []byte { return []byte("1" + strings.Repeat("0", n)) }},
	{"fraction-digits", func(n int) []byte { return []byte("0." + strings.Repeat("3", n)) }},
	{"leading-zero-fraction", func(n int) []byte { return []byte("0." + strings.Repeat("0", n) + "1") }},
	{"exponent-digits", func(n int) []byte { return []byte("1e" + strings.Repeat("9", n)) }},
	{"neg-exponent-digits", func(n int) []byte { return []byte("1e-" + strings.Repeat("9", n)) }},
	{"exponent-zeros", func(n int) []byte { return []byte("1e" + strings.Repeat("0", n) + "5") }},
	{"plain-string", func(n int) []byte { return []byte(`"` + strings.Repeat("a", n) + `"`) }},
	{"utf8-string", func(n int) []byte { return []byte(`"` + strings.Repeat("\xc3\xa9", n/2) + `"`) }},
	{"invalid-utf8-string", func(n int) []byte { return []byte(`"` + strings.Repeat("\xff", n) + `"`) }},
	{"newline-escapes", func(n int) []byte { return []byte(`"` + strings.Repeat(`\n`, n/2) + `"`) }},
	{"unicode-escapes", func(n int) []byte { return []byte(`"` + strings.Repeat(`\u00e9`, n/6) + `"`) }},
	{"surrogate-pairs", func(n int) []byte { return []byte(`"` + strings.Repeat(`\ud83d\ude00`, n/12) + `"`) }},
	{"lone-surrogates", func(n int) []byte { return []byte(`"` + strings.Repeat(`\ud83d`, n/6) + `"`) }},
	{"unterminated-string", func(n int) []byte { return []byte(`"` + strings.Repeat("a", n)) }},
	{"whitespace", func(n int) []byte { return []byte(strings.Repeat(" \n\t\r", n/4) + "1") }},
	{"only-whitespace", func(n int) []byte { return []byte(strings.Repeat(" ", n)) }},
	{"trailing-whitespace", func(n int) []byte { return []byte("1" + strings.Repeat(" ", n)) }},
	{"flat-array", func(n int) []byte { return []byte("[" + strings.Repeat("0,", n/2) + "0]") }},
	{"flat-array-strings", func(n int) []byte { return []byte("[" + strings.Repeat(`"a",`, n/4) + `"b"]`) }},
	{"flat-object", func(n int) []byte { return []byte("{" + strings.Repeat(`"a":0,`, n/6) + `"b":1}`) }},
	{"flat-array-of-arrays", func(n int) []byte { return []byte("[" + strings.Repeat("[],", n/3) + "[]]") }},
	{"flat-array-of-objects", func(n int) []byte { return []byte("[" + strings.Repeat("{},", n/3) + "{}]") }},
	{"deep-array", func(n int) []byte { return []byte(strings.Repeat("[", n) + strings.Repeat("]", n)) }},
	{"deep-array-unclosed", func(n int) []byte { return []byte(strings.Repeat("[", n)) }},
	{"deep-object", func(n int) []byte { return []byte(strings.Repeat(`{"a":`, n) + "0" + strings.Repeat("}", n)) }},
	{"deep-object-unclosed", func(n int) []byte { return []byte(strings.Repeat(`{"a":`, n)) }},
	{"deep-mixed", func(n int) []byte {
		return []byte(strings.Repeat(`[{"a":`, n/2) + "0" + strings.Repeat("}]", n/2))
	}},
	{"deep-mixed-unclosed", func(n int) []byte { return []byte(strings.Repeat(`[{"a":`, n/2)) }},
	{"deep-inside-array", func(n int) []byte {
		return []byte("[" + strings.Repeat("[", n) + strings.Repeat("]", n) + "]")
	}},
	{"deep-inside-object", func(n int) []byte {
		return []byte(`{"k":` + strings.Repeat("[", n) + strings.Repeat("]", n) + "}")
	}},
	{"closers-only", func(n int) []byte { return []byte(strings.Repeat("]", n)) }},
	{"commas", func(n int) []byte { return []byte("[" + strings.Repeat(",", n)) }},
	{"long-key", func(n int) []byte { return []byte(`{"` + strings.Repeat("k", n) + `":1}`) }},
	{"long-escaped-key", func(n int) []byte { return []byte(`{"` + strings.Repeat(`\t`, n/2) + `":1}`) }},
	{"backslashes", func(n int) []byte { return []byte(`"` + strings.Repeat(`\\`, n/2) + `"`) }},
	{"quotes-in-string", func(n int) []byte { return []byte(`["` + strings.Repeat(`\"`, n/2) + `"]`) }},
	{"brackets-in-string", func(n int) []byte { return []byte(`["` + strings.Repeat(`[{`, n/2) + `"]`) }},
	// a long stretch without quotes or brackets of the enclosing kind, THEN strings holding
	// brackets and escaped quotes: windowed "hop over plain runs" fast paths lose their bound
	// beyond the window (seeded change C11r6-m2: an 8 KiB window in the fast skipper)
	{"long-numeric-array-then-brackets-in-strings-in-object", func(n int) []byte {
		return []byte(`{"a":[` + strings.Repeat("0,", n) + `0],"b":"}","c":[1,2],"d":"]","e":"{[","f":"\"}","g":{"h":"]}"}}`)
	}},
	{"long-numeric-array-then-brackets-in-strings-in-array", func(n int) []byte {
		return []byte(`[{"a":` + strings.Repeat("1", n) + `},"]",[1,2],"}","[{","\"]",["]["]]`)
	}},
	// nesting that continues in a LATER sibling after a finished container (pooled per-level state)
	{"deep-arrays-each-after-an-empty-array-sibling", func(n int) []byte { return []byte(strings.Repeat("[[],", n) + strings.Repeat("]", n)) }},
	{"deep-objects-each-after-an-object-sibling", func(n int) []byte {
		return []byte(strings.Repeat(`{"a":{},"b":`, n) + "1" + strings.Repeat("}", n))
	}},
	// very many small containers of the OTHER kind, each closed right after a nested one of the
	// skipper's own kind (seeded change C11r8-m1: a counter of foreign brackets that misses one
	// decrement per element and reaches the depth limit after ~10,000 elements)
	{"many-objects-each-holding-an-array", func(n int) []byte { return []byte("[" + strings.Repeat(`{"a":[1]},`, n/5) + `{"a":[1]}]`) }},
	{"many-arrays-each-holding-an-object", func(n int) []byte { return []byte(`{"k":[` + strings.Repeat(`[{"a":1}],`, n/5) + `[{}]]}`) }},
	{"long-plain-string-then-brackets-in-strings", func(n int) []byte {
		return []byte(`["` + strings.Repeat("a", n) + `","]","}",{"k":"}"},"\"]"]`)
	}},
}

func W5(sizes []int, sink Sink) {
	c := &h.Case{Family: "W5"}
	c.DescFn = func(c *h.Case) string { return fmt.Sprintf("big %s n=%d", BigDocs[c.P[0]].Name, c.P[1]) }
	for bi, bd := range BigDocs {
		for _, n := range sizes {
			c.Input = bd.Make(n)
			c.Desc = ""
			c.Deep = strings.HasPrefix(bd.Name, "deep") && n > 10000
			if bd.Name == "deep-mixed" || bd.Name == "deep-mixed-unclosed" {
				c.Deep = n > 10000
			}
			c.P = [4]int{bi, n, 0, 0}
			sink(c)
		}
	}
}
