package workload

import (
	"fmt"
	"strconv"
	"strings"

	h "verif/internal/harness"
)

// W11 "records": documents shaped like the JSON that programs actually exchange - arrays of
// records that repeat one key set, with keys that are easy to confuse (same length, long common
// prefixes, one byte of difference at the end or in the middle, case only, one spelling an escaped
// form of another, one a prefix of another), columns whose values repeat, change type or are null,
// nested records, and the usual layouts (compact, ", " / ": ", pretty-printed with indentation).
// The generated families W1..W7 vary bytes, positions, lengths and shapes; what they do not contain
// is CONTENT that repeats or nearly repeats across a document (and across the documents of one
// history), which is what caches, interning tables, key comparison shortcuts and size predictions
// are sensitive to.

var realKeys = []string{"id", "name", "type", "url", "created_at", "updated_at", "public", "actor", "repo", "payload", "login", "gravatar_id",
	"avatar_url", "org", "size", "ref", "head", "before", "commits", "sha", "author", "email", "message", "distinct", "push_id", "description",
	"lat", "lon", "price", "tags", "count", "total", "items", "next", "prev", "ok", "error", "code", "data", "meta", "user_id", "user_ids"}

var commonPrefixLens = []int{0, 1, 3, 7, 8, 9, 15, 16, 17, 24, 31, 32, 33, 63, 64, 65, 127, 128, 129, 255, 256, 257}

type recGen struct {
	r      *Rand
	maxKey int // longest common prefix / key length drawn
	wide   bool
}

func (g *recGen) pick(s []string) string { return s[g.r.Intn(len(s))] }

// keySet returns raw key tokens (with quotes).
func (g *recGen) keySet() []string {
	n := 1 + g.r.Intn(8)
	if g.wide && g.r.Intn(10) == 0 {
		n = 9 + g.r.Intn(40)
	}
	var keys []string
	q := func(s string) string { return `"` + s + `"` }
	switch g.r.Intn(7) {
	case 0, 1: // real-world vocabulary
		off := g.r.Intn(len(realKeys))
		for i := 0; i < n; i++ {
			keys = append(keys, q(realKeys[(off+i*(1+g.r.Intn(3)))%len(realKeys)]))
		}
	case 2: // a long common prefix, the difference in the last byte(s)
		pl := commonPrefixLens[g.r.Intn(len(commonPrefixLens))]
		for pl > g.maxKey {
			pl = commonPrefixLens[g.r.Intn(len(commonPrefixLens))]
		}
		pre := strings.Repeat(g.pick([]string{"k", "field_", "x", "ab", "\xc3\xa9"}), pl+1)[:pl]
		if pl > 0 && pre[pl-1] >= 0x80 {
			pre = strings.Repeat("k", pl)
		}
		for i := 0; i < n; i++ {
			keys = append(keys, q(pre+string(rune('a'+i%26))+strings.Repeat("z", i/26)))
		}
	case 3: // same length, the difference in one middle byte; or equal but for the case of one letter
		l := 2 + g.r.Intn(40)
		if g.r.Intn(4) == 0 {
			l = commonPrefixLens[3+g.r.Intn(len(commonPrefixLens)-3)] + 1
		}
		if l > g.maxKey+1 {
			l = g.maxKey + 1
		}
		base := []byte(strings.Repeat("keyname_", l/8+1)[:l])
		for i := 0; i < n; i++ {
			k := append([]byte(nil), base...)
			pos := (i * 7) % l
			if g.r.Intn(3) == 0 {
				k[pos] ^= 0x20
			} else {
				k[pos] = byte('0' + i%10)
			}
			keys = append(keys, q(string(k)))
		}
	case 4: // each key a prefix of the next
		unit := g.pick([]string{"a", "ab", "key", "_"})
		for i := 0; i < n; i++ {
			keys = append(keys, q(strings.Repeat(unit, i)))
		}
	case 5: // one decoded key in several spellings, and keys that look like other tokens
		base := g.pick([]string{"a", "id", "name", "a/b", "x y", "é", "k\"q", "null", "true", "0", "1e5", "[]", "{}", ""})
		keys = append(keys, q(escapePlain(base)))
		keys = append(keys, q(escapeAll(base)))
		keys = append(keys, q(strings.ReplaceAll(escapePlain(base), "/", `\/`)))
		keys = append(keys, q(escapePlain(base)+" "))
		keys = append(keys, q(strings.ToUpper(escapePlain(base))))
		for len(keys) < n {
			keys = append(keys, q(realKeys[g.r.Intn(len(realKeys))]))
		}
	default: // numerals as keys (dense and sparse), as in id -> record maps
		start := g.r.Intn(3) * 99999999
		for i := 0; i < n; i++ {
			keys = append(keys, q(strconv.Itoa(start+i*(1+g.r.Intn(2)*999))))
		}
	}
	return keys
}

func escapePlain(s string) string {
	var sb strings.Builder
	for i := 0; i < len(s); i++ {
		if s[i] == '"' || s[i] == '\\' {
			sb.WriteByte('\\')
		}
		sb.WriteByte(s[i])
	}
	return sb.String()
}

func escapeAll(s string) string {
	var sb strings.Builder
	for _, r := range s {
		if r < 0x10000 {
			fmt.Fprintf(&sb, `\u%04x`, r)
		} else {
			sb.WriteRune(r)
		}
	}
	return sb.String()
}

type layout struct{ open, sep, colon, close, indent string }

var layouts = []layout{
	{"", ",", ":", "", ""},
	{"", ", ", ": ", "", ""},
	{"\n", ",\n", ": ", "\n", "  "},
	{"\n", ",\n", ": ", "\n", "\t"},
	{"\r\n", ",\r\n", " : ", "\r\n", "    "},
	{" ", " , ", " : ", " ", ""},
}

// column value generators: kind fixed per key, row varies
func (g *recGen) cell(kind, row int, depth int, lay layout, level int) string {
	if g.r.Intn(25) == 0 {
		return "null"
	}
	if g.r.Intn(40) == 0 {
		kind = g.r.Intn(12) // the column changes its type now and then
	}
	switch kind {
	case 0:
		return strconv.Itoa(row + 1)
	case 1:
		return strconv.FormatInt(1234567890123456789+int64(row)*4194304, 10) // snowflake-style ids
	case 2:
		return fmt.Sprintf("%d.%02d", 1+row*3, (row*37)%100) // prices
	case 3:
		return fmt.Sprintf("%s%d.%06d", []string{"", "-"}[row%2], row%180, (row*104729)%1000000) // coordinates
	case 4:
		return g.pick([]string{"true", "false"})
	case 5: // a few distinct strings that repeat down the column
		return `"` + g.pick([]string{"PushEvent", "CreateEvent", "WatchEvent", "open", "closed", "", "id", "name"}) + `"`
	case 6: // timestamps
		return fmt.Sprintf(`"2015-01-%02dT%02d:%02d:%02dZ"`, 1+row%28, row%24, (row*7)%60, (row*13)%60)
	case 7: // urls, with and without escaped slashes
		u := fmt.Sprintf("https://api.example.com/users/%d/repos", row)
		if row%3 == 0 {
			u = strings.ReplaceAll(u, "/", `\/`)
		}
		return `"` + u + `"`
	case 8: // text with escapes and non-ASCII
		return g.pick([]string{`"line one\nline two"`, `"café"`, "\"caf\xc3\xa9\"", `"tab\there"`, `"quote \"q\""`, `"😀 ok"`, "\"bad \xff byte\"", `"back\\slash"`})
	case 9:
		if depth > 0 {
			return g.records(1+g.r.Intn(2), depth-1, lay, level+1)
		}
		return "[]"
	case 10:
		if depth > 0 {
			keys := g.keySet()
			if len(keys) > 5 {
				keys = keys[:5]
			}
			return g.record(keys, nil, row, depth-1, lay, level+1)
		}
		return "{}"
	default:
		var sb strings.Builder
		sb.WriteByte('[')
		for i, n := 0, g.r.Intn(6); i < n; i++ {
			if i > 0 {
				sb.WriteString(strings.TrimSpace(lay.sep))
			}
			sb.WriteString(strconv.Itoa(row*10 + i))
		}
		sb.WriteByte(']')
		return sb.String()
	}
}

func (g *recGen) record(keys []string, kinds []int, row, depth int, lay layout, level int) string {
	if kinds == nil {
		kinds = make([]int, len(keys))
		for i := range kinds {
			kinds[i] = g.r.Intn(12)
		}
	}
	ind := strings.Repeat(lay.indent, level+1)
	var sb strings.Builder
	sb.WriteByte('{')
	first := true
	order := make([]int, len(keys))
	for i := range order {
		order[i] = i
	}
	if g.r.Intn(12) == 0 && len(order) > 1 { // a record with its members in another order
		i, j := g.r.Intn(len(order)), g.r.Intn(len(order))
		order[i], order[j] = order[j], order[i]
	}
	for _, ki := range order {
		if g.r.Intn(30) == 0 { // a missing member
			continue
		}
		reps := 1
		if g.r.Intn(40) == 0 { // a duplicated member
			reps = 2
		}
		for rep := 0; rep < reps; rep++ {
			if first {
				sb.WriteString(lay.open)
			} else {
				sb.WriteString(lay.sep)
			}
			first = false
			sb.WriteString(ind)
			sb.WriteString(keys[ki])
			sb.WriteString(lay.colon)
			sb.WriteString(g.cell(kinds[ki], row+rep, depth, lay, level+1))
		}
	}
	if !first {
		sb.WriteString(lay.close)
		sb.WriteString(strings.Repeat(lay.indent, level))
	}
	sb.WriteByte('}')
	return sb.String()
}

func (g *recGen) records(n, depth int, lay layout, level int) string {
	keys := g.keySet()
	kinds := make([]int, len(keys))
	for i := range kinds {
		kinds[i] = g.r.Intn(12)
	}
	ind := strings.Repeat(lay.indent, level+1)
	var sb strings.Builder
	sb.WriteByte('[')
	for i := 0; i < n; i++ {
		if i == 0 {
			sb.WriteString(lay.open)
		} else {
			sb.WriteString(lay.sep)
		}
		sb.WriteString(ind)
		sb.WriteString(g.record(keys, kinds, i, depth, lay, level+1))
	}
	if n > 0 {
		sb.WriteString(lay.close)
		sb.WriteString(strings.Repeat(lay.indent, level))
	}
	sb.WriteByte(']')
	return sb.String()
}

// W11Doc regenerates record document number index for the given seed. One document in eight carries a
// one-byte fault (so that the validators see near-misses of this shape too).
func W11Doc(seed int64, index uint64) []byte {
	g := &recGen{r: NewRand(seed^0x7ec0d5, index), maxKey: 257, wide: true}
	lay := layouts[g.r.Intn(len(layouts))]
	n := 1 + g.r.Intn(6)
	depth := g.r.Intn(2)
	if g.r.Intn(8) == 0 {
		depth = 2
	}
	switch index % 32 {
	case 5:
		n = 10 + g.r.Intn(60)
		g.maxKey, depth = 65, depth%2
	case 11:
		n = 100 + g.r.Intn(300)
		g.maxKey, depth, g.wide = 33, 0, false
	}
	var s string
	switch g.r.Intn(5) {
	case 0: // an envelope around the records
		ind := lay.indent
		s = "{" + lay.open + ind + `"total"` + lay.colon + strconv.Itoa(n) + lay.sep + ind + `"items"` + lay.colon + g.records(n, depth, lay, 1) + lay.sep + ind + `"next"` + lay.colon + "null" + lay.close + "}"
	case 1: // id -> record map
		keys := g.keySet()
		var sb strings.Builder
		sb.WriteByte('{')
		for i := 0; i < n; i++ {
			if i == 0 {
				sb.WriteString(lay.open)
			} else {
				sb.WriteString(lay.sep)
			}
			sb.WriteString(lay.indent + `"` + strconv.Itoa(1000+i) + `"` + lay.colon + g.record(keys, nil, i, depth, lay, 1))
		}
		if n > 0 {
			sb.WriteString(lay.close)
		}
		sb.WriteByte('}')
		s = sb.String()
	default:
		s = g.records(n, depth, lay, 0)
	}
	if g.r.Intn(4) == 0 {
		s += g.pick([]string{"\n", " ", "\r\n", "\n\n"})
	}
	b := []byte(s)
	if g.r.Intn(8) == 0 && len(b) > 0 {
		switch g.r.Intn(4) {
		case 0:
			b[g.r.Intn(len(b))] = byte(g.r.Intn(256))
		case 1:
			b = b[:g.r.Intn(len(b))]
		case 2:
			i := g.r.Intn(len(b))
			b = append(b[:i], b[i+1:]...)
		case 3:
			i := g.r.Intn(len(b) + 1)
			b = append(b[:i], append([]byte{byte(g.r.Intn(256))}, b[i:]...)...)
		}
	}
	return b
}

// W11 emits n record documents.
func W11(n int, seed int64, sink Sink) {
	c := &h.Case{Family: "W11"}
	c.DescFn = func(c *h.Case) string { return fmt.Sprintf("W11Doc(seed=%d,index=%d)", seed, c.P[0]) }
	for i := 0; i < n; i++ {
		c.Input = W11Doc(seed, uint64(i))
		c.Desc = ""
		c.P[0] = i
		sink(c)
	}
}
