// Package workload holds the deterministic case generators W1..W10 of DESIGN.md section 4.
// Every case is a pure function of (family, position in the family, seed).
//
// Generators call the sink with a *Case whose Input is only valid during the call
// (buffers are reused); sinks copy what they keep.
package workload

import (
	"fmt"
	"strings"

	h "verif/internal/harness"
)

type Sink func(c *h.Case)

// Context is a (prefix, suffix) pair placing a token at one grammar position.
type Context struct{ Pre, Suf string }

var Contexts = []Context{
	{"", ""},
	{" ", " "},
	{"\n\t", "\r "},
	{"[", "]"},
	{"[1,", "]"},
	{"[ ", " ]"},
	{"[0,", ",0]"},
	{`{"a":`, "}"},
	{`{"a":1,"b":`, "}"},
	{`{ "a" : `, ` }`},
	{`{"a":`, `,"b":0}`},
	{"[[", "]]"},
	{`[{"a":`, "}]"},
	{`{"a":[`, "]}"},
	{`{"a":{"b":`, "}}"},
	{"[[],", "]"},
	{`{"a":{},"b":`, `}`},
	{"", " 1"},
	{`[1,[2,`, `],3]`},
	// later values inside NESTED containers: the machines embed separate copies of the
	// array/object skippers, with their own states for first and later members
	{`[{"a":1,"b":`, `}]`},
	{`{"a":{"b":1,"c":`, `}}`},
	{`[[1,`, `]]`},
	{`{"a":[1,`, `]}`},
	{`[{"a":[`, `]}]`},
	{`{"a":1,"b":{"c":`, `}}`},
	{`[0,{"a":`, `}]`},
}

// ReducedContexts is the subset used by the splice family W2.
var ReducedContexts = []Context{
	{"", ""},
	{" ", " "},
	{"[", "]"},
	{"[0,", ",0]"},
	{`{"a":`, "}"},
	{`{"a":1,"b":`, `,"c":0}`},
	{`[{"a":[`, "]}]"},
}

var Literals = []string{"null", "true", "false"}

var NumberTokens = []string{
	"0", "-0", "7", "12", "-12", "0.5", "1.25", "-0.0", "1e5", "1E5", "1e+5", "1e-5", "1.5e10", "0e0",
	"123456789012345678901", "1.0E+2", "10", "-1.5E-3",
}

var StringTokens = []string{
	`""`, `"a"`, `"ab c"`, `"\""`, `"\\"`, `"\/"`, `"\b"`, `"\f"`, `"\n"`, `"\r"`, `"\t"`,
	`"\u00e9"`, `"\u00E9"`, `"\ud83d\ude00"`, `"\ud83d"`, "\"\xc3\xa9\"", "\"\xe2\x82\xac\"", "\"\xf0\x9f\x98\x80\"", `"a\nb"`, `"x\u0041y"`,
	"\"\xff\"",
}

var ArrayTokens = []string{"[]", "[ ]", "[1]", "[1,2]", "[ 1 , 2 ]", "[[]]", `["a"]`, `[{}]`, `[ true , "a" , null , [] , {} , 1.5 ]`}

var ObjectTokens = []string{"{}", "{ }", `{"a":1}`, `{"a":1,"b":2}`, `{ "a" : 1 }`, `{"a":{}}`, `{"a":[]}`, `{"\n":1}`, `{"a":"b"}`, `{ "a" : true , "b" : "s" , "c" : [] , "d" : {} , "e" : null , "f" : 2 }`}

var ReducedTokens = []string{"null", "true", "-12", "0.5", "1e+5", `"a\nb"`, `"\u00e9\ud83d\ude00"`, "[1,2]", `{"a":1}`, "[]", "{}"}

// LongSeeds are hand-written documents mixing many constructs.
var LongSeeds = []string{
	`{"a":[1,2.5e-3,"x\ny",null,true,false,{"b":{}}],"c":"\ud83d\ude00"}`,
	` [ { "k" : [ ] , "l" : { } } , -0.0 , "\\\"" ] `,
	`[[[1],[2,[3]]],{"a":{"b":{"c":[null]}}}]`,
	`{"":"","\u0000":0,"a\"b":"c\\d"}`,
	`[1E+2,1e-2,0.1e1,-1,10,"\t","]","}",{"[":"{"}]`,
}

func allTokens() []string {
	var t []string
	t = append(t, Literals...)
	t = append(t, NumberTokens...)
	t = append(t, StringTokens...)
	t = append(t, ArrayTokens...)
	t = append(t, ObjectTokens...)
	return t
}

// TopLevelSeeds is the number of leading W1 seeds in which the token is the first value of the
// input (the three top-level contexts).
func TopLevelSeeds() int { return topLevelSeeds }

var topLevelSeeds = 3 * len(allTokens())

// Seeds returns the W1 seed documents (contexts x tokens, strings in key position, long seeds).
func Seeds() []string {
	var out []string
	toks := allTokens()
	for _, c := range Contexts {
		for _, t := range toks {
			out = append(out, c.Pre+t+c.Suf)
		}
	}
	for _, s := range StringTokens {
		out = append(out, "{"+s+":1}", `{"a":1,`+s+":2}", "[{"+s+":null}]", "{ "+s+" : [] }",
			// keys of nested objects, first and later, under arrays and under objects
			`[{"a":1,`+s+`:2}]`, `{"k":{`+s+`:1}}`, `{"k":{"a":1,`+s+`:2}}`, `[[{`+s+`:1}]]`, `{"a":0,"k":{`+s+`:1}}`, `[0,{`+s+`:1}]`)
	}
	out = append(out, LongSeeds...)
	return out
}

// ReducedSeeds returns the W2 seed set.
func ReducedSeeds() []string {
	var out []string
	for _, c := range ReducedContexts {
		for _, t := range ReducedTokens {
			out = append(out, c.Pre+t+c.Suf)
		}
	}
	for _, s := range []string{`"a"`, `"\n"`, `"\u00e9"`, `""`} {
		out = append(out, "{"+s+":1}", `{"a":1,`+s+":2}")
	}
	out = append(out, LongSeeds...)
	return out
}

// ClassBytes holds one representative per transition class of the machines plus both
// neighbours of every class boundary (the bytes just outside JSON whitespace, digits, hex
// letters, structural characters) and the apostrophe (one machine accepts a non-standard
// backslash-apostrophe escape): 65 bytes. 0x0b and 0x0e were added after the mechanical
// mutation survey found a '<= 10' -> '<= 11' whitespace mutant that only 0x0b exposes.
var ClassBytes = []byte{
	0x00, 0x01, 0x08, 0x09, 0x0a, 0x0b, 0x0c, 0x0d, 0x0e, 0x1f, 0x20, '!', '"', '#', '\'', '*', '+',
	',', '-', '.', '/', '0', '1', '5', '9', ':', ';', '@', 'A', 'E', 'F', 'G', 'N',
	'T', 'Z', '[', '\\', ']', '^', '`', 'a', 'b', 'e', 'f', 'g', 'l', 'n', 'r', 's',
	't', 'u', 'x', 'z', '{', '|', '}', '~', 0x7f, 0x80, 0xbf, 0xc2, 0xe0, 0xef, 0xf0, 0xff,
}

var allBytes = func() []byte {
	b := make([]byte, 256)
	for i := range b {
		b[i] = byte(i)
	}
	return b
}()

// W1 emits, for every seed, every position and every byte: replace, insert, truncate+append.
// thorough: all 256 bytes for all three operations; quick: all 256 for replace, the 48 class
// representatives for insert and truncate+append. The seed itself is emitted first.
func W1(thorough bool, sink Sink) {
	seeds := Seeds()
	ops := []string{"seed", "replace", "insert", "truncate+append", "truncate", "delete"}
	buf := make([]byte, 0, 256)
	c := &h.Case{Family: "W1"}
	c.DescFn = func(c *h.Case) string {
		return fmt.Sprintf("seed#%d %q %s pos=%d byte=0x%02x", c.P[0], seeds[c.P[0]], ops[c.P[1]], c.P[2], c.P[3])
	}
	emit := func(si int, op int, pos int, b byte) {
		c.Input = buf
		c.Desc = ""
		c.P = [4]int{si, op, pos, int(b)}
		sink(c)
	}
	insBytes := ClassBytes
	if thorough {
		insBytes = allBytes
	}
	for si, s := range seeds {
		buf = append(buf[:0], s...)
		emit(si, 0, 0, 0)
		for i := 0; i < len(s); i++ {
			for _, b := range allBytes {
				if b == s[i] {
					continue
				}
				buf = append(buf[:0], s...)
				buf[i] = b
				emit(si, 1, i, b)
			}
		}
		for i := 0; i <= len(s); i++ {
			for _, b := range insBytes {
				buf = append(buf[:0], s[:i]...)
				buf = append(buf, b)
				buf = append(buf, s[i:]...)
				emit(si, 2, i, b)
			}
			for _, b := range insBytes {
				buf = append(buf[:0], s[:i]...)
				buf = append(buf, b)
				emit(si, 3, i, b)
			}
			buf = append(buf[:0], s[:i]...)
			emit(si, 4, i, 0)
			if i < len(s) {
				buf = append(buf[:0], s[:i]...)
				buf = append(buf, s[i+1:]...)
				emit(si, 5, i, 0)
			}
		}
	}
}

// W1Followers: every token x all 256 following bytes x {top level, in array, in object}
// ("value followed by every possible next byte", C02).
func W1Followers(sink Sink) {
	toks := allTokens()
	buf := make([]byte, 0, 256)
	pres := []string{"", " ", "[", `{"k":`, "[0, "}
	c := &h.Case{Family: "W1F"}
	c.DescFn = func(c *h.Case) string {
		more := ""
		if c.P[3] == 1 {
			more = ` then "]}"`
		}
		return fmt.Sprintf("token %q after %q followed by 0x%02x%s", toks[c.P[0]], pres[c.P[1]], c.P[2], more)
	}
	for ti, t := range toks {
		for pi, pre := range pres {
			for b := 0; b < 256; b++ {
				buf = append(buf[:0], pre...)
				buf = append(buf, t...)
				buf = append(buf, byte(b))
				c.Input = buf
				c.Desc = ""
				c.P = [4]int{ti, pi, b, 0}
				sink(c)
				// and with more after the follower
				buf = append(buf, "]}"...)
				c.Input = buf
				c.Desc = ""
				c.P = [4]int{ti, pi, b, 1}
				sink(c)
			}
		}
	}
}

func w2Cuts() (pres, sufs []string) {
	seeds := ReducedSeeds()
	preSet := map[string]struct{}{}
	sufSet := map[string]struct{}{}
	for _, s := range seeds {
		for i := 0; i <= len(s); i++ {
			if _, ok := preSet[s[:i]]; !ok {
				preSet[s[:i]] = struct{}{}
				pres = append(pres, s[:i])
			}
			if _, ok := sufSet[s[i:]]; !ok {
				sufSet[s[i:]] = struct{}{}
				sufs = append(sufs, s[i:])
			}
		}
	}
	return
}

// W2 splice family: prefix + one class byte + suffix, where prefixes and suffixes are all
// distinct cuts of the reduced seed set. sample: emit only a pseudo-random 1/sample of the
// (prefix,suffix) pairs, chosen by seed (1 = everything).
func W2(sample int, seed int64, sink Sink) {
	pres, sufs := w2Cuts()
	buf := make([]byte, 0, 512)
	c := &h.Case{Family: "W2"}
	c.DescFn = func(c *h.Case) string {
		if c.P[2] < 0 {
			return fmt.Sprintf("splice %q + %q", pres[c.P[0]], sufs[c.P[1]])
		}
		return fmt.Sprintf("splice %q + 0x%02x + %q", pres[c.P[0]], c.P[2], sufs[c.P[1]])
	}
	k := uint64(seed)*0x9e3779b97f4a7c15 + 12345
	for pi, pre := range pres {
		for si, suf := range sufs {
			if sample > 1 {
				k = k*6364136223846793005 + 1442695040888963407
				if int((k>>33)%uint64(sample)) != 0 {
					continue
				}
			}
			for _, b := range ClassBytes {
				buf = append(buf[:0], pre...)
				buf = append(buf, b)
				buf = append(buf, suf...)
				c.Input = buf
				c.Desc = ""
				c.P = [4]int{pi, si, int(b), 0}
				sink(c)
			}
			buf = append(buf[:0], pre...)
			buf = append(buf, suf...)
			c.Input = buf
			c.Desc = ""
			c.P = [4]int{pi, si, -1, 0}
			sink(c)
		}
	}
}

// W2Size reports the number of distinct prefixes and suffixes (for evidence).
func W2Size() (int, int) {
	p, s := w2Cuts()
	return len(p), len(s)
}

// W2Heads are short foreign continuations: what follows the injected byte in family W2T.
var W2Heads = []string{"", "e5", "E+1", "5", ".5", "0", "-1", "1e5", `"x"`, "null", "true", "ull", "rue", "alse", "[", "{", "]", "}", ",0", ":0",
	`,"z":0`, " ", `"`, `\n"`, `u0041"`, "x", "[]", "{}", `"k":1`, ",", ":", "e", ".", "-", "+1", "1", " 1", `\"`, "\\", "/",
	// richer continuations: a well-formed float / string / container AFTER the fault, so that an
	// error flag that is set and later overwritten shows (seeded changes C01r5-m1, C02r5-m2)
	`"k":1.5`, `"k":[2e3]`, "[1.5]", `{"q":1e2}`, "2.5E-1", `0,1.5`, `"s",0.5e1`}

// closersFor returns what closes the containers (and string) left open by prefix.
func closersFor(prefix string) string {
	var stack []byte
	inStr, esc := false, false
	for i := 0; i < len(prefix); i++ {
		ch := prefix[i]
		if inStr {
			switch {
			case esc:
				esc = false
			case ch == '\\':
				esc = true
			case ch == '"':
				inStr = false
			}
			continue
		}
		switch ch {
		case '"':
			inStr = true
		case '[':
			stack = append(stack, ']')
		case '{':
			stack = append(stack, '}')
		case ']', '}':
			if len(stack) > 0 {
				stack = stack[:len(stack)-1]
			}
		}
	}
	out := ""
	if inStr {
		out = `"`
	}
	for i := len(stack) - 1; i >= 0; i-- {
		out += string(stack[i])
	}
	return out
}

var w2tBytesQuick = []byte{' ', '\t', '\n', '\r', 0x0b, 0x0c, ',', ':', '"', '0', 'e', '.', '-', ']', '}', 0x00}

// W2T "tail" family: every distinct prefix cut of the reduced seeds + one injected byte (or
// none) + a short foreign continuation + exactly the closers the prefix needs. It targets
// two-deviation inputs such as {"a":0,"k":null<TAB>e5} that a retargeted transition accepts
// (found by the mechanical mutation survey: single-fault neighbours and a thin splice sample miss
// them, and a garbage tail only shows as an ACCEPTED document when the containers are closed).
func W2T(allBytesToo bool, sink Sink) {
	pres, _ := w2Cuts()
	inject := w2tBytesQuick
	if allBytesToo {
		inject = ClassBytes
	}
	closers := make([]string, len(pres))
	for i, p := range pres {
		closers[i] = closersFor(p)
	}
	buf := make([]byte, 0, 512)
	c := &h.Case{Family: "W2T"}
	c.DescFn = func(c *h.Case) string {
		inj := "nothing"
		if c.P[1] >= 0 {
			inj = fmt.Sprintf("0x%02x", c.P[1])
		}
		return fmt.Sprintf("prefix %q + %s + head %q + closers %q", pres[c.P[0]], inj, W2Heads[c.P[2]], closers[c.P[0]])
	}
	for pi, pre := range pres {
		for hi, head := range W2Heads {
			for bi := -1; bi < len(inject); bi++ {
				buf = append(buf[:0], pre...)
				b := -1
				if bi >= 0 {
					b = int(inject[bi])
					buf = append(buf, inject[bi])
				}
				buf = append(buf, head...)
				buf = append(buf, closers[pi]...)
				c.Input = buf
				c.Desc = ""
				c.P = [4]int{pi, b, hi, 0}
				sink(c)
			}
		}
	}
}

// W1R whitespace-run family: a value with a long run of whitespace before or after it (lengths
// 1..20 and around 32 and 64) in which one position holds a non-whitespace byte. Scanners with
// word-at-a-time fast paths are position sensitive (seeded change C01r2-m2 hid NUL/VT/FF
// acceptance behind an 8-byte fast path that a one-byte sweep of short seeds cannot reach).
func W1R(sink Sink) {
	bases := []string{"1", "null", `"a"`, "[1]", `{"a":1}`, "true", "-0.5e3", "[]"}
	bad := []byte{0x00, 0x01, 0x08, 0x0b, 0x0c, 0x0e, 0x1f, 0x7f, 0x85, 0xa0, 'x', ',', '0', '"'}
	lens := []int{1, 2, 3, 4, 5, 6, 7, 8, 9, 10, 11, 12, 13, 14, 15, 16, 17, 18, 19, 20, 24, 31, 32, 33, 40, 63, 64, 65}
	wsb := " \t\n\r"
	c := &h.Case{Family: "W1R"}
	c.DescFn = func(c *h.Case) string {
		side := "before"
		if c.P[3]&1 == 1 {
			side = "after"
		}
		return fmt.Sprintf("base %q, whitespace run of %d %s it with byte 0x%02x at run offset %d", bases[c.P[0]], c.P[1], side, c.P[3]>>1, c.P[2])
	}
	buf := make([]byte, 0, 256)
	run := make([]byte, 0, 80)
	for bi, base := range bases {
		for _, L := range lens {
			for pos := -1; pos < L; pos++ {
				for _, bb := range bad {
					for pat := 0; pat < 3; pat++ {
						// run patterns: the four whitespace bytes cycled, all spaces, all of one other
						// whitespace byte (a fast path that compares whole words with a constant only
						// triggers on homogeneous runs; seeded change C13r2-m2)
						run = run[:0]
						for i := 0; i < L; i++ {
							switch pat {
							case 0:
								run = append(run, wsb[(i+bi)%4])
							case 1:
								run = append(run, ' ')
							default:
								run = append(run, wsb[1+(bi+L)%3])
							}
						}
						if pos >= 0 {
							run[pos] = bb
						}
						for side := 0; side < 2; side++ {
							buf = buf[:0]
							if side == 0 {
								buf = append(buf, run...)
								buf = append(buf, base...)
							} else {
								buf = append(buf, base...)
								buf = append(buf, run...)
							}
							c.Input = buf
							c.Desc = ""
							c.P = [4]int{bi, L, pos, int(bb)<<1 | side}
							sink(c)
						}
					}
					if pos < 0 {
						break
					}
				}
			}
		}
	}
}

// W1RL: LONG whitespace runs (around 64, 128, 256, 512, 1024 and 4096 bytes) before a token that is
// followed by 0..9 more whitespace bytes and a second token or a foreign byte: windowed or
// word-at-a-time whitespace scanners hand over to the byte loop somewhere inside such a run
// (seeded changes C13r6-m2: a 128-byte window with a stale bound; C05r6-m1: a wrong bit-scan
// direction when the word holding the token ends in spaces).
func W1RL(sink Sink) {
	toks := []string{"7", "-", "x", "null", `"a"`, "[1]", "true", "\x00", "-0.5e3", "{}"}
	seconds := []string{"", "9", "x", ",", "null"}
	c := &h.Case{Family: "W1RL"}
	c.DescFn = func(c *h.Case) string {
		return fmt.Sprintf("%d whitespace bytes (pattern %d), token %q, %d more whitespace bytes, then %q", c.P[0], c.P[3], toks[c.P[1]], c.P[2]>>4, seconds[c.P[2]&15])
	}
	wsb := " \t\n\r"
	var lens []int
	for _, B := range []int{64, 128, 256, 512, 1024, 4096} {
		for d := -9; d <= 9; d++ {
			lens = append(lens, B+d)
		}
	}
	buf := make([]byte, 0, 4200)
	for _, L := range lens {
		for pat := 0; pat < 2; pat++ {
			for ti, tok := range toks {
				for gap := 0; gap <= 9; gap++ {
					for si, sec := range seconds {
						if L > 300 && (gap%3 != 1 || si > 2) {
							continue
						}
						buf = buf[:0]
						for i := 0; i < L; i++ {
							if pat == 0 {
								buf = append(buf, ' ')
							} else {
								buf = append(buf, wsb[(i+L)%4])
							}
						}
						buf = append(buf, tok...)
						for i := 0; i < gap; i++ {
							buf = append(buf, ' ')
						}
						buf = append(buf, sec...)
						c.Input = buf
						c.Desc = ""
						c.P = [4]int{L, ti, gap<<4 | si, pat}
						sink(c)
					}
				}
			}
		}
	}
}

// W1D digit-run family: numbers whose integer, fraction or exponent part is a run of 1..40
// digits with one foreign byte at every offset of the run, at top level and as array / object
// members (the same position-sensitivity concern as W1R, for the digit-scanning loops).
func W1D(sink Sink) {
	parts := []struct{ pre, suf string }{{"", ""}, {"-", ""}, {"0.", ""}, {"1.", "e5"}, {"1e", ""}, {"1E-", ""}, {"2.5e+", ""}, {"", ".5"}, {"", "e3"}}
	ctx := []Context{{"", ""}, {" ", " "}, {"[", "]"}, {"[0,", ",1]"}, {`{"a":`, "}"}, {`{"a":0,"b":`, `,"c":1}`}, {`[{"a":0,"b":`, "}]"}}
	bad := []byte{'e', 'E', '.', '-', '+', ' ', ',', 'x', 0x00, '/', ':', ']', '}', 0xe5, 0xc5, 'a'}
	lens := []int{1, 2, 3, 4, 5, 7, 8, 9, 15, 16, 17, 18, 19, 20, 21, 31, 32, 33, 40}
	digits := "1234567890987654321012345678909876543210"
	c := &h.Case{Family: "W1D"}
	c.DescFn = func(c *h.Case) string {
		return fmt.Sprintf("number part %q+<%d digits>+%q in context %q..%q with byte 0x%02x at digit offset %d", parts[c.P[0]].pre, c.P[1], parts[c.P[0]].suf, ctx[c.P[3]>>8].Pre, ctx[c.P[3]>>8].Suf, c.P[3]&255, c.P[2])
	}
	buf := make([]byte, 0, 128)
	for pi, pt := range parts {
		for _, L := range lens {
			for pos := -1; pos < L; pos++ {
				for _, bb := range bad {
					for ci, cx := range ctx {
						buf = append(buf[:0], cx.Pre...)
						buf = append(buf, pt.pre...)
						st := len(buf)
						buf = append(buf, digits[:L]...)
						if pos >= 0 {
							buf[st+pos] = bb
						}
						buf = append(buf, pt.suf...)
						buf = append(buf, cx.Suf...)
						c.Input = buf
						c.Desc = ""
						c.P = [4]int{pi, L, pos, ci<<8 | int(bb)}
						sink(c)
					}
					if pos < 0 {
						break
					}
				}
			}
		}
	}
}

// W1N number-grammar product: sign x integer part x fraction x exponent spelling (144 literals),
// alone and with a short tail, in every context. The machines inline one copy of the number
// states per grammar position and pick the hand-written fraction / exponent scanner per
// copy; a wrong choice in one copy only shows for one spelling in one position (seeded changes
// C02r3-m1: 0E+1 as a later object member; C07r2-m2; C03r2-m1).
func W1N(sink Sink) {
	signs := []string{"", "-"}
	ints := []string{"0", "7", "12"}
	fracs := []string{"", ".5", ".25"}
	exps := []string{"", "e1", "E1", "e+1", "E+1", "e-1", "E-1", "e10"}
	tails := []string{"", "e5", ".5", "E+1", "5", "-", "+", "e", ".", "0"}
	c := &h.Case{Family: "W1N"}
	c.DescFn = func(c *h.Case) string {
		return fmt.Sprintf("number product #%d in context #%d with tail %q", c.P[0], c.P[1], tails[c.P[2]])
	}
	buf := make([]byte, 0, 128)
	n := 0
	for _, sg := range signs {
		for _, ip := range ints {
			for _, fr := range fracs {
				for _, ex := range exps {
					lit := sg + ip + fr + ex
					for ci, cx := range Contexts {
						for ti, tl := range tails {
							buf = append(buf[:0], cx.Pre...)
							buf = append(buf, lit...)
							buf = append(buf, tl...)
							buf = append(buf, cx.Suf...)
							c.Input = buf
							c.Desc = ""
							c.P = [4]int{n, ci, ti, 0}
							sink(c)
						}
					}
					n++
				}
			}
		}
	}
}

// W1S escape-sequence product: every ordered pair of escape kinds (and pairs with an ordinary
// byte in between or around) as a string value in every context and as a key in every key
// position (seeded change C02r3-m2: a backslash right after a complete unicode escape in a
// LATER array element).
func W1S(sink Sink) {
	esc := []string{`\n`, `\"`, `\\`, `\/`, `\b`, `\t`, `\f`, `\r`, `\u00e9`, `\u0041`, `\ud83d\ude00`, `\ud800`, `\uDFFF`, `\ue000`, `\udbff`, `\udbff\udfff`, `\ud800\udc00`, `]`, `}`, `[`, `{`, `,`, `:`} // the last six: structural bytes as string content next to escapes (seeded change C08r5-m2)
	c := &h.Case{Family: "W1S"}
	c.DescFn = func(c *h.Case) string {
		return fmt.Sprintf("escape pair (%q,%q) shape %d position %d", esc[c.P[0]], esc[c.P[1]], c.P[2], c.P[3])
	}
	buf := make([]byte, 0, 128)
	keyPos := [][2]string{{"{", ":1}"}, {`{"a":1,`, ":2}"}, {"[{", ":null}]"}, {`[{"a":1,`, ":2}]"}, {`{"k":{`, ":1}}"}, {`{"k":{"a":1,`, ":2}}"}, {`[0,{`, ":1}]"}, {`{"o\tk":{`, ":1}}"}, {`{"o\tk":[{`, ":1}]}"}, {`{"o\u00e9":{"a":1,`, ":1}}"}}
	for i, e1 := range esc {
		for j, e2 := range esc {
			for shape := 0; shape < 3; shape++ {
				var str string
				switch shape {
				case 0:
					str = `"` + e1 + e2 + `"`
				case 1:
					str = `"x` + e1 + e2 + `y"`
				default:
					str = `"` + e1 + "q" + e2 + `"`
				}
				pos := 0
				for _, cx := range Contexts {
					buf = append(buf[:0], cx.Pre...)
					buf = append(buf, str...)
					buf = append(buf, cx.Suf...)
					c.Input = buf
					c.Desc = ""
					c.P = [4]int{i, j, shape, pos}
					pos++
					sink(c)
				}
				for _, kp := range keyPos {
					buf = append(buf[:0], kp[0]...)
					buf = append(buf, str...)
					buf = append(buf, kp[1]...)
					c.Input = buf
					c.Desc = ""
					c.P = [4]int{i, j, shape, pos}
					pos++
					sink(c)
				}
			}
		}
	}
}

// Words: spellings that other languages or other parsers accept as values and JSON does not
// (a re-synchronisation with upstream strconv would bring in inf/nan; seeded change C13r3-m2).
var Words = []string{"NaN", "nan", "NAN", "Inf", "inf", "+Inf", "-Inf", "Infinity", "-Infinity", "+Infinity", "infinity", "+1", "+0", "+1.5", "+.5", ".5", "-.5", "5.", "0x10", "0X1F", "0b1", "0o7", "1_000", "1e", "1e+", "1.e1",
	"TRUE", "True", "FALSE", "False", "NULL", "Null", "None", "nil", "undefined", "yes", "no", "on", "off", "t", "f", "n", "tru", "fals", "nul", "truee", "nulll", "'a'", "`a`", "<null>", "#", "//", "/**/1"}

func W1Words(sink Sink) {
	c := &h.Case{Family: "words"}
	pres := []string{"", " ", "[", `{"a":`, "[1,"}
	sufs := []string{"", " ", ",", "]", "}", "1"}
	for _, w := range Words {
		for _, pre := range pres {
			for _, suf := range sufs {
				c.Input = []byte(pre + w + suf)
				c.Desc = "non-JSON word " + w
				sink(c)
			}
		}
	}
}

// W1RI whitespace runs INSIDE containers: every structural slot of three templates filled with a run
// of length 0..12, 16, 17, 31..33, 64 (mixed and homogeneous), clean and with one foreign byte at a
// few offsets (seeded change C08r4-m1 added tight filler loops to the fast skippers and got one
// wrong: '{  }' with two or more whitespace bytes).
func W1RI(sink Sink) {
	templates := [][]string{
		{"[", "]"},
		{"{", "}"},
		{"[", "1", ",", "2", "]"},
		{"{", `"a"`, ":", "1", ",", `"b"`, ":", "[", "]", "}"},
		{"[", "{", "}", ",", "[", "null", "]", "]"},
	}
	lens := []int{0, 1, 2, 3, 4, 5, 6, 7, 8, 9, 10, 11, 12, 16, 17, 31, 32, 33, 64}
	wsb := " \t\n\r"
	bad := []byte{0x00, 0x0b, 0x0c, 0x1f, 0xa0, 'x'}
	c := &h.Case{Family: "W1RI"}
	c.DescFn = func(c *h.Case) string {
		return fmt.Sprintf("template #%d, run of %d whitespace bytes (pattern %d) in slot %d, foreign byte code %d", c.P[0], c.P[1], c.P[3]&3, c.P[2], c.P[3]>>2)
	}
	buf := make([]byte, 0, 256)
	run := make([]byte, 0, 80)
	for ti, tpl := range templates {
		for slot := 1; slot < len(tpl); slot++ {
			for _, L := range lens {
				for pat := 0; pat < 3; pat++ {
					for bi := -1; bi < len(bad); bi++ {
						run = run[:0]
						for i := 0; i < L; i++ {
							switch pat {
							case 0:
								run = append(run, wsb[(i+slot)%4])
							case 1:
								run = append(run, ' ')
							default:
								run = append(run, wsb[1+(slot+L)%3])
							}
						}
						if bi >= 0 {
							if L == 0 {
								continue
							}
							run[(L*(bi+1)/(len(bad)+1))%L] = bad[bi]
						}
						buf = buf[:0]
						for i, part := range tpl {
							if i == slot {
								buf = append(buf, run...)
							}
							buf = append(buf, part...)
						}
						c.Input = buf
						c.Desc = ""
						c.P = [4]int{ti, L, slot, (bi+1)<<2 | pat}
						sink(c)
					}
				}
			}
		}
	}
}

// W1Depth: every nesting depth 1..130 (past two 64-entry chunk boundaries) around every kind of
// innermost value, in array / object / mixed nests: stack growth interacting with each value kind.
func W1Depth(sink Sink) {
	pats := [][]int{{0}, {1}, {2}, {3}, {0, 2}, {1, 3}}
	c := &h.Case{Family: "W1Dp"}
	c.DescFn = func(c *h.Case) string {
		if c.P[3] > 0 {
			return fmt.Sprintf("nest pattern %v for %d levels, then one level opened by unit %q, inner %q", pats[c.P[0]], c.P[1]-1, NestUnits[c.P[3]-1].Open, NestInner[c.P[2]])
		}
		return fmt.Sprintf("nest pattern %v depth %d inner %q", pats[c.P[0]], c.P[1], NestInner[c.P[2]])
	}
	for pi, pat := range pats {
		for d := 1; d <= 130; d++ {
			for ii, inner := range NestInner {
				c.Input = BuildNest(pat, d, inner, d)
				c.Desc = ""
				c.P = [4]int{pi, d, ii, 0}
				sink(c)
			}
		}
	}
	// the LAST opener varied over every nest unit (every push site of the machines) at every depth
	// 1..130 and around larger powers of two and their sums (growth steps of the return stack;
	// seeded change C02r6-m2: one of 14 push sites does not grow when the stack is exactly full)
	depths := []int{}
	for d := 1; d <= 130; d++ {
		depths = append(depths, d)
	}
	for _, d := range []int{256, 384, 512, 640, 768, 896, 1024, 1536, 2048, 4096, 8192} {
		depths = append(depths, d-1, d, d+1)
	}
	for pi, pat := range pats {
		if pi >= 4 {
			break
		}
		for _, d := range depths {
			if d > 130 && pi >= 2 && d > 1100 {
				continue // long object towers only up to ~1000 levels
			}
			for ui := range NestUnits {
				for ii, inner := range []string{"", "0"} {
					c.Input = BuildNestFinal(pat, d, ui, inner)
					c.Desc = ""
					c.P = [4]int{pi, d, ii, ui + 1}
					if ii == 1 {
						c.P[2] = 1
					}
					sink(c)
				}
			}
		}
	}
}

// W1Width: containers of every width 0..130 (and a few larger), alone and as two siblings of widths
// (n, m) from a boundary grid, as arrays and as objects: size hints carried from one container to the
// next and growth thresholds of slices and maps.
func W1Width(sink Sink) {
	c := &h.Case{Family: "W1Wd"}
	c.DescFn = func(c *h.Case) string {
		return fmt.Sprintf("%s of width %d then width %d (second absent if -1; -2-k: an empty sibling then one of width k), element style / wrapping %d", [...]string{"arrays", "objects"}[c.P[0]], c.P[1], c.P[2], c.P[3])
	}
	elems := []string{"1", `"s"`, "null", "[]", "{}", "-0.5", `"\u00e9"`, "true"}
	build := func(buf []byte, obj bool, n, style int) []byte {
		if obj {
			buf = append(buf, '{')
		} else {
			buf = append(buf, '[')
		}
		for i := 0; i < n; i++ {
			if i > 0 {
				buf = append(buf, ',')
			}
			if obj {
				if style == 2 && i > 0 && i%7 == 0 {
					buf = append(buf, `"k0":`...) // duplicate key
				} else {
					buf = append(buf, fmt.Sprintf(`"k%d":`, i)...)
				}
			}
			switch style {
			case 0:
				buf = append(buf, '1')
			default:
				buf = append(buf, elems[(i+style)%len(elems)]...)
			}
		}
		if obj {
			return append(buf, '}')
		}
		return append(buf, ']')
	}
	buf := make([]byte, 0, 1<<14)
	for o := 0; o < 2; o++ {
		for n := 0; n <= 130; n++ {
			for style := 0; style < 3; style++ {
				c.Input = build(buf[:0], o == 1, n, style)
				c.Desc = ""
				c.P = [4]int{o, n, -1, style}
				sink(c)
			}
		}
		for _, n := range []int{255, 256, 257, 511, 512, 513, 1023, 1024, 1025} {
			c.Input = build(buf[:0], o == 1, n, 1)
			c.Desc = ""
			c.P = [4]int{o, n, -1, 1}
			sink(c)
		}
		grid := []int{0, 1, 2, 3, 4, 5, 7, 8, 9, 15, 16, 17, 31, 32, 33, 63, 64, 65, 100}
		for _, n := range grid {
			for _, m := range grid {
				for style := 0; style < 2; style++ {
					b := append(buf[:0], '[')
					b = build(b, o == 1, n, style)
					b = append(b, ',')
					b = build(b, o == 1, m, style)
					b = append(b, ']')
					c.Input = b
					c.Desc = ""
					c.P = [4]int{o, n, m, style}
					sink(c)
				}
			}
		}
		// a wide container, an EMPTY one and a small one as siblings (in an array and in an object)
		for _, n := range grid {
			for _, k := range []int{1, 3} {
				for wrapObj := 0; wrapObj < 2; wrapObj++ {
					var b []byte
					seps := [3]string{"[", ",", ","}
					if wrapObj == 1 {
						seps = [3]string{`{"a":`, `,"b":`, `,"c":`}
					}
					b = append(buf[:0], seps[0]...)
					b = build(b, o == 1, n, 1)
					b = append(b, seps[1]...)
					b = build(b, o == 1, 0, 1)
					b = append(b, seps[2]...)
					b = build(b, o == 1, k, 1)
					if wrapObj == 1 {
						b = append(b, '}')
					} else {
						b = append(b, ']')
					}
					c.Input = b
					c.Desc = ""
					c.P = [4]int{o, n, -2 - k, wrapObj}
					sink(c)
				}
			}
		}
	}
}

// W1Pow: strings whose raw length is exactly a power of two, one less and one more (8 .. 131072),
// plain, with one escape and multi-byte, alone, followed by a short string in the same container,
// and as a key: size-class and chunk thresholds of scratch buffers (seeded change C15r5-m1).
func W1Pow(sink Sink) {
	c := &h.Case{Family: "W1Pw"}
	c.DescFn = func(c *h.Case) string {
		return fmt.Sprintf("string of raw length %d, style %d, wrapping %d", c.P[0], c.P[1], c.P[2])
	}
	wraps := [][2]string{{"", ""}, {"[", `,"bbbbbbbb"]`}, {`{"k":`, `,"z":"cccc"}`}, {"{", `:1,"dddd":"e"}`}}
	for k := 3; k <= 17; k++ {
		for dl := -1; dl <= 1; dl++ {
			L := 1<<k + dl
			for style := 0; style < 3; style++ {
				for wi, w := range wraps {
					if L > 40000 && wi == 3 {
						continue
					}
					b := make([]byte, 0, L+40)
					b = append(b, w[0]...)
					b = append(b, '"')
					n := L
					switch style {
					case 1:
						b = append(b, `\n`...)
						n -= 2
					case 2:
						b = append(b, "\xc3\xa9"...)
						n -= 2
					}
					for i := 0; i < n; i++ {
						b = append(b, byte('a'+i%26))
					}
					b = append(b, '"')
					b = append(b, w[1]...)
					c.Input = b
					c.Desc = ""
					c.P = [4]int{L, style, wi, 0}
					sink(c)
				}
			}
		}
	}
}

// W1First: every byte value as the FIRST byte of the data (after 0, 1 or 3 whitespace bytes)
// followed by long continuations that would suit a token of another type: runs of digits and of
// the bytes 0x3a..0x3f that share the digits' high nibble, literal tails, strings, containers,
// fraction and exponent tails. A chunked reader that tests a whole word at once may never look at
// the first byte on its own (seeded change C13r5-m2: ':0000000' read as an integer).
var W1FirstConts = []string{"0000000000", "12345678,", "::::::::", "0000000", ";<=>?:;<=>", "99999999999999999999", "7777777.5", "1234567e5", "ull", "rue", "alse", "ull,1234", `"abcdefgh"`, "[1]", `{"a":1}`, "e5", ".5e3", "-1", "        1", "", "00000000" + "00000000"}

func W1First(sink Sink) {
	c := &h.Case{Family: "W1Fb"}
	pres := []string{"", " ", "\n\t "}
	c.DescFn = func(c *h.Case) string {
		return fmt.Sprintf("whitespace prefix %q, first byte 0x%02x, continuation %q", pres[c.P[0]], c.P[1], W1FirstConts[c.P[2]])
	}
	buf := make([]byte, 0, 64)
	for pi, pre := range pres {
		for b := 0; b < 256; b++ {
			for ci, cont := range W1FirstConts {
				buf = append(buf[:0], pre...)
				buf = append(buf, byte(b))
				buf = append(buf, cont...)
				c.Input = buf
				c.Desc = ""
				c.P = [4]int{pi, b, ci, 0}
				sink(c)
			}
		}
	}
}

// W1Len: every length 1..600 (and 1023..1025, 4095..4097, 65535..65537) of each repeatable unit of
// the grammar - integer, fraction and exponent digits, string bytes, escapes, whitespace - alone
// and inside an array, plus the exponent-digit runs followed by a second sign. Counters narrower
// than int wrap at 256 or 65536 (seeded change C01r6-m2: exponent digits counted in a uint8).
func W1Len(sink Sink) {
	type unit struct{ pre, rep, suf string }
	units := []unit{
		{"", "7", ""}, {"-", "3", ""}, {"0.", "5", ""}, {"1.5", "0", "1"}, {"1e", "0", "7"}, {"1E+", "9", ""}, {"2.5e-", "0", "3"},
		{"1e", "4", "-5"}, {"1e", "0", "+1"}, {"0.", "1", "e+"},
		{`"`, "a", `"`}, {`"`, `\n`, `"`}, {`"x`, "\xc3\xa9", `"`}, {`"`, `\u00e9`, `"`},
		{"", " ", "1"}, {"[1", " ", "]"}, {"[", "\n", "1]"}, {`{"a"`, "\t", ":1}"},
		{"[", "0,", "0]"}, {"[", "[],", "[]]"}, {"{", `"k":1,`, `"z":0}`},
		// key lengths (seeded change C10r8-m2: a per-length key cache with 64 slots and a guard of '> 64')
		{`{"`, "k", `":1}`}, {`{"a":1,"`, "k", `":[2]}`}, {`{"\t`, "k", `":1}`},
	}
	var lens []int
	for L := 1; L <= 600; L++ {
		lens = append(lens, L)
	}
	lens = append(lens, 1023, 1024, 1025, 4095, 4096, 4097, 65535, 65536, 65537)
	c := &h.Case{Family: "W1Ln"}
	c.DescFn = func(c *h.Case) string {
		u := units[c.P[0]]
		return fmt.Sprintf("%q + %d x %q + %q, wrapping %d", u.pre, c.P[1], u.rep, u.suf, c.P[2])
	}
	for ui, u := range units {
		for _, L := range lens {
			if L > 5000 && len(u.rep) > 2 {
				continue
			}
			body := u.pre + strings.Repeat(u.rep, L) + u.suf
			for w := 0; w < 2; w++ {
				if w == 1 && (u.pre == "" && u.rep == " ") {
					continue
				}
				if w == 0 {
					c.Input = []byte(body)
				} else {
					c.Input = []byte("[0," + body + "]")
				}
				c.Desc = ""
				c.P = [4]int{ui, L, w, 0}
				sink(c)
			}
		}
	}
}

// W1Uni: well-formed multi-byte characters whose CODE POINT's low byte is a JSON whitespace or
// structural byte (U+2009 -> 0x09, U+012C -> ',', U+015D -> ']', ...), and a few astral ones, in
// the places where whitespace or a structural byte could stand: before a value, after it, and
// between the tokens of a container. A scanner that decodes runes and narrows them to bytes sees
// whitespace there (seeded change C01r7-m2: countWhitespace rewritten with bytes.IndexFunc and
// byte(r)).
func W1Uni(sink Sink) {
	lows := []byte{0x20, 0x09, 0x0a, 0x0d, 0x22, 0x2c, 0x3a, 0x5b, 0x5d, 0x7b, 0x7d, 0x5c, 0x30, 0x2d}
	c := &h.Case{Family: "W1Un"}
	c.DescFn = func(c *h.Case) string { return fmt.Sprintf("U+%04X in slot %d", c.P[0], c.P[1]) }
	slots := [][2]string{{"", "1"}, {"1", ""}, {"[1", "]"}, {"[1,", "2]"}, {`{"a"`, ":1}"}, {`{"a":1`, "}"}, {"[1] ", ""}, {"null", ""}}
	var cps []rune
	for hi := 1; hi <= 0xff; hi++ {
		if hi >= 0xd8 && hi <= 0xdf {
			continue
		}
		for _, lo := range lows {
			cps = append(cps, rune(hi<<8|int(lo)))
		}
	}
	for _, lo := range lows {
		cps = append(cps, rune(0x1F200|int(lo)), rune(0x10000|int(lo)), rune(0x10FF00|int(lo)))
	}
	buf := make([]byte, 0, 32)
	var enc [4]byte
	for _, cp := range cps {
		n := encodeRune(enc[:], cp)
		for si, sl := range slots {
			buf = append(buf[:0], sl[0]...)
			buf = append(buf, enc[:n]...)
			buf = append(buf, sl[1]...)
			c.Input = buf
			c.Desc = ""
			c.P = [4]int{int(cp), si, 0, 0}
			sink(c)
		}
	}
}

func encodeRune(p []byte, r rune) int {
	switch {
	case r < 0x80:
		p[0] = byte(r)
		return 1
	case r < 0x800:
		p[0] = 0xc0 | byte(r>>6)
		p[1] = 0x80 | byte(r)&0x3f
		return 2
	case r < 0x10000:
		p[0] = 0xe0 | byte(r>>12)
		p[1] = 0x80 | byte(r>>6)&0x3f
		p[2] = 0x80 | byte(r)&0x3f
		return 3
	}
	p[0] = 0xf0 | byte(r>>18)
	p[1] = 0x80 | byte(r>>12)&0x3f
	p[2] = 0x80 | byte(r>>6)&0x3f
	p[3] = 0x80 | byte(r)&0x3f
	return 4
}
