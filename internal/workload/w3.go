package workload

import (
	"fmt"
	"strconv"
	"strings"

	h "verif/internal/harness"
)

// Rand is a tiny deterministic PRNG (splitmix64). A case is regenerated from
// (seed, index) alone, without replaying a stream.
type Rand struct{ s uint64 }

func NewRand(seed int64, index uint64) *Rand {
	r := &Rand{s: uint64(seed)*0x9e3779b97f4a7c15 ^ (index+1)*0xbf58476d1ce4e5b9}
	r.Uint64()
	return r
}

func (r *Rand) Uint64() uint64 {
	r.s += 0x9e3779b97f4a7c15
	z := r.s
	z = (z ^ (z >> 30)) * 0xbf58476d1ce4e5b9
	z = (z ^ (z >> 27)) * 0x94d049bb133111eb
	return z ^ (z >> 31)
}

func (r *Rand) Intn(n int) int {
	if n <= 0 {
		return 0
	}
	return int(r.Uint64() % uint64(n))
}

func (r *Rand) Float64() float64 { return float64(r.Uint64()>>11) / (1 << 53) }

var NumPool = []string{"0", "-0", "1", "-1", "10", "123", "0.5", "-0.5", "1e5", "1E5", "1e+5", "1e-5", "1.5e300", "1e308", "1e309", "-1e309", "1.7976931348623157e308", "1.7976931348623159e308",
	"4.9e-324", "2e-324", "1e-400", "0e999999", "0.0", "0.000", "123456789012345678901234567890", "9007199254740993", "2147483647", "2147483648", "-2147483648", "-2147483649", "4294967295", "4294967296",
	"9223372036854775807", "9223372036854775808", "-9223372036854775808", "-9223372036854775809", "18446744073709551615", "18446744073709551616", "999999999999999999", "1000000000000000000", "9999999999999999999", "99999999999999999999",
	"18446744073709551620", "18446744073709551629", "-18446744073709551620", "184467440737095516200", "9223372036854775809", "-9223372036854775810", "2.2250738585072011e-308", "2.2250738585072014e-308", "1e23", "8.5e22", "1e22", "1e-22", "123456789e-5", "0.1", "0.3", "3.14159", "6.02214076e23"}
var BadNum = []string{"01", "-", "1.", ".5", "1e", "1e+", "-01", "+1", "1.e5", "0x10", "1.5.3", "--1", "1ee5", "00", "-0.", "0e", "1E-", "-.5", "1e1.5", "Infinity", "NaN", "-Infinity"}
var StrPool = []string{`""`, `"a"`, `"abc def"`, `"\n"`, `"\""`, `"\\"`, `"\/"`, `"\b\f\n\r\t"`, `"\u0041"`, `"\u00e9"`, `"\ud83d\ude00"`, `"\ud800"`, `"\udc00"`, `"\ud800\ud800"`, `"\ud800\u0041"`, `"\ud800x"`, `"\uDBFF\uDFFF"`,
	"\"\xff\"", "\"\xc3\"", "\"\xe2\x82\"", "\"\xc3\xa9\"", "\"\xf0\x9f\x98\x80\"", "\"\xed\xa0\x80\"", `"[{]}"`, `"a\"]"`, `"\\\\"`, `"\\"]`, "\"\x7f\"", `"\u0000"`, `"\uffff"`, `"\uFFFE"`, `"\ufffd"`,
	`"a\u00e9b"`, `"long string without any escapes at all, just plain ascii"`, `"tab\there"`, "\"mixed \xf0\x9f\x98\x80 \\ud83d\\ude00 \xff end\""}
var BadStr = []string{`"`, `"abc`, "\"\x01\"", "\"\n\"", `"\x"`, `"\u12"`, `"\u12G4"`, `"\'"`, `"\`, `"\u"`, "\"\t\"", `"\ud800\u12"`, `"\ud800\`, `"\ud800\uZZZZ"`, `'a'`, `"\U00e9"`, "\"a\x1fb\"", "\"\x00\""}
var WsPool = []string{"", "", "", " ", "\t", "\n", "\r", "  ", " \n\t\r "}
var BadWs = []string{"\f", "\v", "\x00", "\xa0", "/**/", "\xef\xbb\xbf", "\x85", "\xe2\x80\xa8"}

// Gen is the seeded recursive document generator of family W3.
type Gen struct {
	R        *Rand
	MaxDepth int // containers stop being generated below this depth
	Width    int // max members
	Faults   bool
}

func (g *Gen) pick(s []string) string { return s[g.R.Intn(len(s))] }
func (g *Gen) ws() string {
	if g.Faults && g.R.Intn(200) == 0 {
		return g.pick(BadWs)
	}
	return g.pick(WsPool)
}

func (g *Gen) Num() string {
	switch g.R.Intn(12) {
	case 0:
		if g.Faults {
			return g.pick(BadNum)
		}
	case 1, 2, 3:
		var sb strings.Builder
		if g.R.Intn(3) == 0 {
			sb.WriteByte('-')
		}
		nd := 1 + g.R.Intn(25)
		for i := 0; i < nd; i++ {
			c := byte('0' + g.R.Intn(10))
			if i == 0 && nd > 1 && c == '0' {
				c = '1'
			}
			sb.WriteByte(c)
		}
		if g.R.Intn(2) == 0 {
			sb.WriteByte('.')
			for i, n := 0, 1+g.R.Intn(25); i < n; i++ {
				sb.WriteByte(byte('0' + g.R.Intn(10)))
			}
		}
		if g.R.Intn(2) == 0 {
			sb.WriteString(g.pick([]string{"e", "E", "e+", "e-", "E+", "E-"}))
			sb.WriteString(strconv.Itoa(g.R.Intn(400)))
		}
		return sb.String()
	}
	return g.pick(NumPool)
}

func (g *Gen) Str() string {
	switch g.R.Intn(12) {
	case 0:
		if g.Faults {
			return g.pick(BadStr)
		}
	case 1, 2, 3:
		var sb strings.Builder
		sb.WriteByte('"')
		for i, n := 0, g.R.Intn(12); i < n; i++ {
			switch g.R.Intn(8) {
			case 0:
				sb.WriteString(g.pick([]string{`\n`, `\"`, `\\`, `\/`, `\b`, `\f`, `\r`, `\t`}))
			case 1:
				fmt.Fprintf(&sb, `\u%04x`, g.R.Intn(0x10000))
			case 2:
				fmt.Fprintf(&sb, `\u%04X`, 0xd800+g.R.Intn(0x800))
			case 3:
				sb.WriteByte(byte(0x80 + g.R.Intn(0x80)))
			case 4:
				sb.WriteRune(rune(g.R.Intn(0x10ffff)))
			default:
				c := byte(0x20 + g.R.Intn(0x5f))
				if c == '"' || c == '\\' {
					c = 'x'
				}
				sb.WriteByte(c)
			}
		}
		sb.WriteByte('"')
		return sb.String()
	}
	return g.pick(StrPool)
}

func (g *Gen) Value(depth int) string {
	k := g.R.Intn(10)
	if depth >= g.MaxDepth && k >= 6 {
		k = g.R.Intn(6)
	}
	switch k {
	case 0:
		return g.pick(Literals)
	case 1:
		if g.Faults && g.R.Intn(30) == 0 {
			return g.pick([]string{"nul", "tru", "fals", "nulll", "True", "NULL", "n", "t", "f", "truee", "nullx", "nil", "undefined"})
		}
		return g.pick(Literals)
	case 2, 3:
		return g.Num()
	case 4, 5:
		return g.Str()
	case 6, 7:
		n := g.R.Intn(g.Width + 1)
		var sb strings.Builder
		sb.WriteByte('[')
		for i := 0; i < n; i++ {
			if i > 0 {
				if g.Faults && g.R.Intn(150) == 0 {
					sb.WriteString(g.pick([]string{"", ",,", ";", ":"}))
				} else {
					sb.WriteString(g.ws() + "," + g.ws())
				}
			} else {
				sb.WriteString(g.ws())
			}
			sb.WriteString(g.Value(depth + 1))
		}
		sb.WriteString(g.ws())
		if g.Faults && g.R.Intn(60) == 0 {
			sb.WriteString(g.pick([]string{"", "}", ",]", "]]"}))
		} else {
			sb.WriteByte(']')
		}
		return sb.String()
	default:
		n := g.R.Intn(g.Width + 1)
		var sb strings.Builder
		sb.WriteByte('{')
		for i := 0; i < n; i++ {
			if i > 0 {
				if g.Faults && g.R.Intn(150) == 0 {
					sb.WriteString(g.pick([]string{"", ",,", ";"}))
				} else {
					sb.WriteString(g.ws() + "," + g.ws())
				}
			} else {
				sb.WriteString(g.ws())
			}
			if g.R.Intn(4) == 0 {
				sb.WriteString(g.pick([]string{`"a"`, `"a"`, `"b"`, `"a"`, `"b"`, `"a"`, `"b"`}))
			} else if g.Faults && g.R.Intn(100) == 0 {
				sb.WriteString(g.pick([]string{"1", "null", "a", "[]", ""}))
			} else {
				sb.WriteString(g.Str())
			}
			sb.WriteString(g.ws())
			if g.Faults && g.R.Intn(80) == 0 {
				sb.WriteString(g.pick([]string{"", "::", ",", "="}))
			} else {
				sb.WriteString(":")
			}
			sb.WriteString(g.ws())
			sb.WriteString(g.Value(depth + 1))
		}
		sb.WriteString(g.ws())
		if g.Faults && g.R.Intn(60) == 0 {
			sb.WriteString(g.pick([]string{"", "]", ",}", "}}"}))
		} else {
			sb.WriteByte('}')
		}
		return sb.String()
	}
}

// Doc generates one document, possibly with trailing garbage or a byte-level mutation.
func (g *Gen) Doc() []byte {
	s := g.ws() + g.Value(0)
	switch g.R.Intn(6) {
	case 0:
		s += g.ws()
	case 1:
		if g.Faults {
			s += g.pick([]string{" x", "x", ",", "]", "}", " 1", "1", "\"", ":", "e", ".", "-", "0", "\x00", " null", "null"})
		}
	case 2:
		if g.Faults {
			s += g.ws() + g.Value(3)
		}
	}
	b := []byte(s)
	if g.Faults && g.R.Intn(4) == 0 && len(b) > 0 {
		switch g.R.Intn(4) {
		case 0:
			b[g.R.Intn(len(b))] = byte(g.R.Intn(256))
		case 1:
			b = b[:g.R.Intn(len(b))]
		case 2:
			i := g.R.Intn(len(b))
			b = append(b[:i], b[i+1:]...)
		case 3:
			i := g.R.Intn(len(b) + 1)
			b = append(b[:i], append([]byte{byte(g.R.Intn(256))}, b[i:]...)...)
		}
	}
	return b
}

// W3Doc regenerates document number index of family W3 for the given seed.
func W3Doc(seed int64, index uint64) []byte {
	g := &Gen{R: NewRand(seed, index), MaxDepth: 7, Width: 4, Faults: true}
	// a tenth of the documents are wider/deeper
	switch index % 10 {
	case 3:
		g.Width = 9
		g.MaxDepth = 4
	case 7:
		g.Width = 2
		g.MaxDepth = 12
	}
	return g.Doc()
}

// W3Valid generates a well-formed document (no injected faults).
func W3Valid(seed int64, index uint64) []byte {
	g := &Gen{R: NewRand(seed^0x5bd1e995, index), MaxDepth: 6, Width: 4, Faults: false}
	return g.Doc()
}

// W3 emits n generated documents.
func W3(n int, seed int64, sink Sink) {
	c := &h.Case{Family: "W3"}
	c.DescFn = func(c *h.Case) string { return fmt.Sprintf("W3Doc(seed=%d,index=%d)", seed, c.P[0]) }
	for i := 0; i < n; i++ {
		c.Input = W3Doc(seed, uint64(i))
		c.Desc = ""
		c.P[0] = i
		sink(c)
	}
}
