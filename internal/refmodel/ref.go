// Package refmodel is a deliberately simple reference model of RFC 8259 parsing with
// rjson's documented deviations (raw invalid UTF-8 kept, depth limit 10,000).
//
// It is a plain recursive-descent parser: no tables, no state machine, no look-ahead
// tricks. It shares no code and no technique with rjson. The harness additionally
// compares it with encoding/json on every input (see monitor.SelfCheck).
package refmodel

import (
	"unicode/utf16"
	"unicode/utf8"
)

// MaxDepth is the nesting limit the properties state (a container at depth 10,001 fails).
const MaxDepth = 10000

type Kind int

const (
	KNull Kind = iota
	KBool
	KNumber
	KString
	KArray
	KObject
)

func (k Kind) String() string {
	return [...]string{"null", "bool", "number", "string", "array", "object"}[k]
}

// Node is a parsed value with source offsets relative to the parsed slice.
type Node struct {
	Kind       Kind
	Start, End int // [Start,End) of the value token
	Bool       bool
	Str        []byte  // decoded string bytes (raw bytes preserved)
	Elems      []*Node // array elements / object member values
	Keys       []Key   // for objects, parallel to Elems
	Depth      int     // nesting depth below (0 for scalars, 1 for an empty container, ...)
}

type Key struct {
	RawStart, RawEnd int // between the quotes
	Decoded          []byte
}

func IsWS(b byte) bool { return b == ' ' || b == '\t' || b == '\r' || b == '\n' }

func SkipWS(d []byte, p int) int {
	for p < len(d) && IsWS(d[p]) {
		p++
	}
	return p
}

type parser struct {
	d     []byte
	limit int
}

// ParseValue parses the first value in d after optional whitespace.
// ok=false if it is not well-formed or nested deeper than MaxDepth.
func ParseValue(d []byte) (n *Node, ok bool) {
	return ParseValueLimit(d, MaxDepth)
}

// ParseValueLimit is ParseValue with an explicit depth limit (limit<=0: unlimited).
func ParseValueLimit(d []byte, limit int) (n *Node, ok bool) {
	p := parser{d, limit}
	n, _, ok = p.value(SkipWS(d, 0), 1)
	return n, ok
}

// Valid: one value surrounded by whitespace only.
func Valid(d []byte) bool {
	n, ok := ParseValue(d)
	if !ok {
		return false
	}
	return SkipWS(d, n.End) == len(d)
}

func (ps *parser) value(p int, depth int) (*Node, int, bool) {
	d := ps.d
	if p >= len(d) {
		return nil, p, false
	}
	switch c := d[p]; {
	case c == 'n':
		return ps.lit(p, "null", KNull, false)
	case c == 't':
		return ps.lit(p, "true", KBool, true)
	case c == 'f':
		return ps.lit(p, "false", KBool, false)
	case c == '"':
		s, e, ok := ScanString(d, p)
		if !ok {
			return nil, p, false
		}
		return &Node{Kind: KString, Start: p, End: e, Str: s}, e, true
	case c == '-' || (c >= '0' && c <= '9'):
		e, ok := ScanNumber(d, p)
		if !ok {
			return nil, p, false
		}
		return &Node{Kind: KNumber, Start: p, End: e}, e, true
	case c == '[':
		if ps.limit > 0 && depth > ps.limit {
			return nil, p, false
		}
		n := &Node{Kind: KArray, Start: p, Depth: 1}
		q := SkipWS(d, p+1)
		if q < len(d) && d[q] == ']' {
			n.End = q + 1
			return n, n.End, true
		}
		for {
			q = SkipWS(d, q)
			el, e, ok := ps.value(q, depth+1)
			if !ok {
				return nil, p, false
			}
			n.Elems = append(n.Elems, el)
			if el.Depth+1 > n.Depth {
				n.Depth = el.Depth + 1
			}
			q = SkipWS(d, e)
			if q >= len(d) {
				return nil, p, false
			}
			if d[q] == ',' {
				q++
				continue
			}
			if d[q] == ']' {
				n.End = q + 1
				return n, n.End, true
			}
			return nil, p, false
		}
	case c == '{':
		if ps.limit > 0 && depth > ps.limit {
			return nil, p, false
		}
		n := &Node{Kind: KObject, Start: p, Depth: 1}
		q := SkipWS(d, p+1)
		if q < len(d) && d[q] == '}' {
			n.End = q + 1
			return n, n.End, true
		}
		for {
			q = SkipWS(d, q)
			if q >= len(d) || d[q] != '"' {
				return nil, p, false
			}
			ks, ke, ok := ScanString(d, q)
			if !ok {
				return nil, p, false
			}
			key := Key{RawStart: q + 1, RawEnd: ke - 1, Decoded: ks}
			q = SkipWS(d, ke)
			if q >= len(d) || d[q] != ':' {
				return nil, p, false
			}
			q = SkipWS(d, q+1)
			el, e, ok := ps.value(q, depth+1)
			if !ok {
				return nil, p, false
			}
			n.Keys = append(n.Keys, key)
			n.Elems = append(n.Elems, el)
			if el.Depth+1 > n.Depth {
				n.Depth = el.Depth + 1
			}
			q = SkipWS(d, e)
			if q >= len(d) {
				return nil, p, false
			}
			if d[q] == ',' {
				q++
				continue
			}
			if d[q] == '}' {
				n.End = q + 1
				return n, n.End, true
			}
			return nil, p, false
		}
	}
	return nil, p, false
}

func (ps *parser) lit(p int, s string, k Kind, b bool) (*Node, int, bool) {
	if len(ps.d)-p < len(s) || string(ps.d[p:p+len(s)]) != s {
		return nil, p, false
	}
	return &Node{Kind: k, Start: p, End: p + len(s), Bool: b}, p + len(s), true
}

// ScanNumber: maximal munch of the RFC 8259 number grammar starting at p.
// ok=false if what maximal munch takes is not a complete number ("1." "1e" "-").
func ScanNumber(d []byte, p int) (int, bool) {
	q := p
	if q < len(d) && d[q] == '-' {
		q++
	}
	if q >= len(d) {
		return p, false
	}
	if d[q] == '0' {
		q++
	} else if d[q] >= '1' && d[q] <= '9' {
		for q < len(d) && d[q] >= '0' && d[q] <= '9' {
			q++
		}
	} else {
		return p, false
	}
	if q < len(d) && d[q] == '.' {
		q++
		s := q
		for q < len(d) && d[q] >= '0' && d[q] <= '9' {
			q++
		}
		if q == s {
			return p, false
		}
	}
	if q < len(d) && (d[q] == 'e' || d[q] == 'E') {
		q++
		if q < len(d) && (d[q] == '+' || d[q] == '-') {
			q++
		}
		s := q
		for q < len(d) && d[q] >= '0' && d[q] <= '9' {
			q++
		}
		if q == s {
			return p, false
		}
	}
	return q, true
}

func hexv(c byte) int {
	switch {
	case c >= '0' && c <= '9':
		return int(c - '0')
	case c >= 'a' && c <= 'f':
		return int(c-'a') + 10
	case c >= 'A' && c <= 'F':
		return int(c-'A') + 10
	}
	return -1
}

func u4(d []byte, p int) (rune, bool) { // expects d[p]=='\\', d[p+1]=='u'
	if p+6 > len(d) || d[p] != '\\' || d[p+1] != 'u' {
		return 0, false
	}
	var r rune
	for i := 2; i < 6; i++ {
		h := hexv(d[p+i])
		if h < 0 {
			return 0, false
		}
		r = r*16 + rune(h)
	}
	return r, true
}

// ScanString scans a string token at d[p]=='"' and returns decoded bytes and end.
// Escapes resolved as the properties state: surrogate pairs joined, lone surrogates
// replaced by U+FFFD, every unescaped byte >= 0x20 copied verbatim.
func ScanString(d []byte, p int) ([]byte, int, bool) {
	if p >= len(d) || d[p] != '"' {
		return nil, p, false
	}
	out := []byte{}
	q := p + 1
	for {
		if q >= len(d) {
			return nil, p, false
		}
		c := d[q]
		switch {
		case c == '"':
			return out, q + 1, true
		case c < 0x20:
			return nil, p, false
		case c == '\\':
			if q+1 >= len(d) {
				return nil, p, false
			}
			switch d[q+1] {
			case '"':
				out = append(out, '"')
			case '\\':
				out = append(out, '\\')
			case '/':
				out = append(out, '/')
			case 'b':
				out = append(out, '\b')
			case 'f':
				out = append(out, '\f')
			case 'n':
				out = append(out, '\n')
			case 'r':
				out = append(out, '\r')
			case 't':
				out = append(out, '\t')
			case 'u':
				r, ok := u4(d, q)
				if !ok {
					return nil, p, false
				}
				q += 6
				if utf16.IsSurrogate(r) {
					r2, ok2 := u4(d, q)
					if ok2 {
						if dec := utf16.DecodeRune(r, r2); dec != utf8.RuneError {
							out = utf8.AppendRune(out, dec)
							q += 6
							continue
						}
					}
					r = utf8.RuneError
				}
				out = utf8.AppendRune(out, r)
				continue
			default:
				return nil, p, false
			}
			q += 2
		default:
			out = append(out, c)
			q++
		}
	}
}

// ToValid replaces each byte that is not part of a valid UTF-8 sequence with U+FFFD
// (what encoding/json does when decoding strings).
func ToValid(b []byte) string {
	out := make([]byte, 0, len(b))
	for i := 0; i < len(b); {
		r, w := utf8.DecodeRune(b[i:])
		if r == utf8.RuneError && w == 1 {
			out = append(out, 0xef, 0xbf, 0xbd)
			i++
			continue
		}
		out = append(out, b[i:i+w]...)
		i += w
	}
	return string(out)
}
