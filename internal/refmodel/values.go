package refmodel

import (
	"math"
	"math/big"
	"reflect"
	"strconv"
)

// Float is the float oracle: strconv.ParseFloat (correctly rounded, ties to even).
// ok=false means the rounded magnitude exceeds the largest finite float64.
func Float(lit string) (float64, bool) {
	f, err := strconv.ParseFloat(lit, 64)
	if err != nil {
		return f, false
	}
	return f, true
}

// Tree converts a node into the interface{} tree rjson is expected to return
// (raw bytes kept in strings, last duplicate key wins).
// ok=false if some number overflows float64.
func Tree(n *Node, d []byte) (interface{}, bool) {
	switch n.Kind {
	case KNull:
		return nil, true
	case KBool:
		return n.Bool, true
	case KNumber:
		f, ok := Float(string(d[n.Start:n.End]))
		return f, ok
	case KString:
		return string(n.Str), true
	case KArray:
		out := make([]interface{}, 0, len(n.Elems))
		for _, e := range n.Elems {
			v, ok := Tree(e, d)
			if !ok {
				return nil, false
			}
			out = append(out, v)
		}
		return out, true
	case KObject:
		out := make(map[string]interface{}, len(n.Elems))
		for i, e := range n.Elems {
			v, ok := Tree(e, d)
			if !ok {
				return nil, false
			}
			out[string(n.Keys[i].Decoded)] = v
		}
		return out, true
	}
	return nil, false
}

// EqTree compares two interface{} trees: floats bitwise, containers by content
// (nil and empty containers are equal), everything else by DeepEqual.
func EqTree(a, b interface{}) bool {
	switch x := a.(type) {
	case float64:
		y, ok := b.(float64)
		return ok && math.Float64bits(x) == math.Float64bits(y)
	case []interface{}:
		y, ok := b.([]interface{})
		if !ok || len(x) != len(y) {
			return false
		}
		for i := range x {
			if !EqTree(x[i], y[i]) {
				return false
			}
		}
		return true
	case map[string]interface{}:
		y, ok := b.(map[string]interface{})
		if !ok || len(x) != len(y) {
			return false
		}
		for k, v := range x {
			w, ok := y[k]
			if !ok || !EqTree(v, w) {
				return false
			}
		}
		return true
	}
	return reflect.DeepEqual(a, b)
}

// CopyTree makes a deep copy that shares no memory with v (strings are re-allocated).
func CopyTree(v interface{}) interface{} {
	switch t := v.(type) {
	case string:
		return string(append([]byte(nil), t...))
	case []interface{}:
		o := make([]interface{}, len(t))
		for i := range t {
			o[i] = CopyTree(t[i])
		}
		return o
	case map[string]interface{}:
		o := make(map[string]interface{}, len(t))
		for k, x := range t {
			o[string(append([]byte(nil), k...))] = CopyTree(x)
		}
		return o
	}
	return v
}

// CompatTree applies ToValid to every string and key (the StdLibCompatible model).
func CompatTree(v interface{}) interface{} {
	switch t := v.(type) {
	case string:
		return ToValid([]byte(t))
	case []interface{}:
		o := make([]interface{}, len(t))
		for i := range t {
			o[i] = CompatTree(t[i])
		}
		return o
	case map[string]interface{}:
		o := make(map[string]interface{}, len(t))
		for k, x := range t {
			o[ToValid([]byte(k))] = CompatTree(x)
		}
		return o
	}
	return v
}

// KeysCollide reports whether two distinct keys of one object become equal after
// invalid-UTF-8 replacement (then encoding/json and the compat helpers may
// legitimately differ in which value survives).
func KeysCollide(n *Node) bool {
	if n.Kind == KObject {
		seen := map[string]string{}
		for _, k := range n.Keys {
			v := ToValid(k.Decoded)
			if prev, ok := seen[v]; ok && prev != string(k.Decoded) {
				return true
			}
			seen[v] = string(k.Decoded)
		}
	}
	for _, e := range n.Elems {
		if KeysCollide(e) {
			return true
		}
	}
	return false
}

// IntModel is the integer-reader model: after optional whitespace a JSON integer
// literal ('-'? then 0 or [1-9][0-9]*) not followed by '.', 'e' or 'E', whose exact
// value lies in [min,max]; unsigned targets (min==0) reject a leading '-'.
func IntModel(d []byte, min, max *big.Int) (val *big.Int, end int, ok bool) {
	p := SkipWS(d, 0)
	q := p
	neg := false
	if q < len(d) && d[q] == '-' {
		neg = true
		q++
	}
	if q >= len(d) {
		return nil, 0, false
	}
	if d[q] == '0' {
		q++
	} else if d[q] >= '1' && d[q] <= '9' {
		for q < len(d) && d[q] >= '0' && d[q] <= '9' {
			q++
		}
	} else {
		return nil, 0, false
	}
	if q < len(d) && (d[q] == '.' || d[q] == 'e' || d[q] == 'E') {
		return nil, 0, false
	}
	if neg && min.Sign() == 0 {
		return nil, 0, false
	}
	v, okb := new(big.Int).SetString(string(d[p:q]), 10)
	if !okb {
		return nil, 0, false
	}
	if v.Cmp(min) < 0 || v.Cmp(max) > 0 {
		return nil, 0, false
	}
	return v, q, true
}

var (
	maxFloat = new(big.Float).SetPrec(2000).SetFloat64(math.MaxFloat64)
	// halfway between MaxFloat64 and the next power of two: values >= this round to +Inf
	overflowThreshold = func() *big.Rat {
		r := new(big.Rat).SetFloat64(math.MaxFloat64)
		ulp := new(big.Rat).SetFloat64(math.Ldexp(1, 971)) // MaxFloat64 ulp = 2^971
		return r.Add(r, ulp.Quo(ulp, big.NewRat(2, 1)))
	}()
)

// ExactFloat computes the correctly rounded (nearest, ties-to-even) float64 of a JSON
// number literal with exact rational arithmetic, independently of strconv. It is used
// on a sample of cases to monitor the strconv oracle itself. ok=false on overflow.
func ExactFloat(lit string) (f float64, ok bool, valid bool) {
	neg := false
	s := lit
	if len(s) > 0 && s[0] == '-' {
		neg = true
		s = s[1:]
	}
	// split mantissa / exponent
	mant := s
	exp := 0
	for i := 0; i < len(s); i++ {
		if s[i] == 'e' || s[i] == 'E' {
			mant = s[:i]
			e, err := strconv.Atoi(s[i+1:])
			if err != nil {
				// huge exponent: decide by sign
				es := s[i+1:]
				if len(es) > 0 && es[0] == '-' {
					e = -1 << 30
				} else {
					e = 1 << 30
				}
			}
			exp = e
			break
		}
	}
	digits := make([]byte, 0, len(mant))
	for i := 0; i < len(mant); i++ {
		if mant[i] == '.' {
			exp -= len(mant) - i - 1
			continue
		}
		if mant[i] < '0' || mant[i] > '9' {
			return 0, false, false
		}
		digits = append(digits, mant[i])
	}
	for len(digits) > 1 && digits[0] == '0' {
		digits = digits[1:]
	}
	if len(digits) == 0 {
		return 0, false, false
	}
	n, okn := new(big.Int).SetString(string(digits), 10)
	if !okn {
		return 0, false, false
	}
	sign := func(x float64) float64 {
		if neg {
			return -x
		}
		return x
	}
	if n.Sign() == 0 {
		return sign(0), true, true
	}
	// magnitude bound: value = n * 10^exp, n has len(digits) digits
	nd := len(digits)
	if exp+nd > 400 {
		return sign(math.Inf(1)), false, true
	}
	if exp+nd < -400 {
		return sign(0), true, true
	}
	r := new(big.Rat).SetInt(n)
	p10 := new(big.Int).Exp(big.NewInt(10), big.NewInt(int64(abs(exp))), nil)
	if exp >= 0 {
		r.Mul(r, new(big.Rat).SetInt(p10))
	} else {
		r.Quo(r, new(big.Rat).SetInt(p10))
	}
	if r.Cmp(overflowThreshold) >= 0 {
		return sign(math.Inf(1)), false, true
	}
	// nearest float64: start from big.Float rounding toward zero, then decide by exact compare
	bf := new(big.Float).SetPrec(53).SetMode(big.ToZero)
	bf.SetRat(r)
	lo, _ := bf.Float64() // may be subnormal-inexact; fix below
	// ensure lo <= r: big.Float->Float64 of a 53-bit value can round for subnormals
	for new(big.Rat).SetFloat64(lo).Cmp(r) > 0 {
		lo = math.Nextafter(lo, 0)
	}
	for {
		up := math.Nextafter(lo, math.Inf(1))
		if math.IsInf(up, 1) || new(big.Rat).SetFloat64(up).Cmp(r) > 0 {
			break
		}
		lo = up
	}
	hi := math.Nextafter(lo, math.Inf(1))
	rl := new(big.Rat).SetFloat64(lo)
	if rl.Cmp(r) == 0 {
		return sign(lo), true, true
	}
	var rh *big.Rat
	if math.IsInf(hi, 1) {
		rh = new(big.Rat).SetFloat64(math.MaxFloat64)
		rh.Add(rh, new(big.Rat).SetFloat64(math.Ldexp(1, 971)))
	} else {
		rh = new(big.Rat).SetFloat64(hi)
	}
	dl := new(big.Rat).Sub(r, rl)
	dh := new(big.Rat).Sub(rh, r)
	switch dl.Cmp(dh) {
	case -1:
		return sign(lo), true, true
	case 1:
		if math.IsInf(hi, 1) {
			return sign(hi), false, true
		}
		return sign(hi), true, true
	}
	// tie: even mantissa
	if math.Float64bits(lo)&1 == 0 {
		return sign(lo), true, true
	}
	if math.IsInf(hi, 1) {
		return sign(hi), false, true
	}
	return sign(hi), true, true
}

func abs(x int) int {
	if x < 0 {
		return -x
	}
	return x
}

var _ = maxFloat
