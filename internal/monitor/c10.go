package monitor

import (
	"errors"
	"fmt"
	"math"
	"strings"

	"github.com/willabides/rjson"

	h "verif/internal/harness"
	"verif/internal/workload"
)

// hostileOffset picks what a hostile handler returns for one call.
func hostileOffset(r *workload.Rand, n int, exact int) (int, string) {
	switch r.Intn(20) {
	case 0:
		return 0, "zero"
	case 1:
		return -1 - r.Intn(100), "negative"
	case 2:
		return n, "end"
	case 3:
		return n + 1 + r.Intn(3), "beyond_end"
	case 4:
		return off40, "beyond_end"
	case 5:
		return math.MaxInt, "near_maxint"
	case 6:
		return math.MaxInt - 1 - r.Intn(3), "near_maxint"
	case 7:
		return math.MaxInt/2 + r.Intn(3) - 1, "near_maxint"
	case 8:
		return math.MinInt + r.Intn(2), "negative"
	case 9:
		return exact + 1, "exact_plus_1"
	case 10:
		return exact - 1, "exact_minus_1"
	case 11, 12, 13:
		return exact, "exact"
	case 14:
		return math.MaxInt - n + r.Intn(3) - 1, "near_maxint"
	default:
		if n <= 0 {
			return 0, "zero"
		}
		return r.Intn(n + 1), "mid_token"
	}
}

type apiCall struct {
	name string
	f    func(d []byte, nb, fb, lb *rjson.Buffer, vr *rjson.ValueReader) (p int, err error, hasP bool)
}

var (
	primeArr    = []byte(`[1,"two",[3],{"four":4},5,6,7,8,9]`)
	primeObj    = []byte(`{"a":1,"b":[2],"c":{"d":3},"e":"f","g":null}`)
	primeBad    = []byte(`{"a":1,"b":[1,2,{"c":tru`)
	primeBadArr = []byte(`[1,2,3,`)
	primeObjOne = []byte(`{"k":1}`)
)

var errNilMapMisuse = errors.New("ValueReader.HandleObjectValue outside ReadObject")

func bufOf(i int, fb, lb *rjson.Buffer) *rjson.Buffer {
	switch i % 3 {
	case 0:
		return nil
	case 1:
		return fb
	}
	return lb
}

// allAPI lists every exported entry point with its (offset, error) result.
var allAPI = func() []apiCall {
	var out []apiCall
	add := func(name string, f func(d []byte, nb, fb, lb *rjson.Buffer, vr *rjson.ValueReader) (int, error, bool)) {
		out = append(out, apiCall{name, f})
	}
	for i, bn := range []string{"nil", "fresh", "reused"} {
		i := i
		add("Valid("+bn+")", func(d []byte, nb, fb, lb *rjson.Buffer, vr *rjson.ValueReader) (int, error, bool) {
			rjson.Valid(d, bufOf(i, fb, lb))
			return 0, nil, false
		})
		add("SkipValue("+bn+")", func(d []byte, nb, fb, lb *rjson.Buffer, vr *rjson.ValueReader) (int, error, bool) {
			p, e := rjson.SkipValue(d, bufOf(i, fb, lb))
			return p, e, true
		})
		add("SkipValueFast("+bn+")", func(d []byte, nb, fb, lb *rjson.Buffer, vr *rjson.ValueReader) (int, error, bool) {
			p, e := rjson.SkipValueFast(d, bufOf(i, fb, lb))
			return p, e, true
		})
	}
	add("ReadValue", func(d []byte, nb, fb, lb *rjson.Buffer, vr *rjson.ValueReader) (int, error, bool) {
		_, p, e := rjson.ReadValue(d)
		return p, e, true
	})
	add("ReadObject", func(d []byte, nb, fb, lb *rjson.Buffer, vr *rjson.ValueReader) (int, error, bool) {
		_, p, e := rjson.ReadObject(d)
		return p, e, true
	})
	add("ReadArray", func(d []byte, nb, fb, lb *rjson.Buffer, vr *rjson.ValueReader) (int, error, bool) {
		_, p, e := rjson.ReadArray(d)
		return p, e, true
	})
	add("ValueReader.ReadValue", func(d []byte, nb, fb, lb *rjson.Buffer, vr *rjson.ValueReader) (int, error, bool) {
		_, p, e := vr.ReadValue(d)
		return p, e, true
	})
	add("ValueReader.ReadObject", func(d []byte, nb, fb, lb *rjson.Buffer, vr *rjson.ValueReader) (int, error, bool) {
		_, p, e := vr.ReadObject(d)
		return p, e, true
	})
	add("ValueReader.ReadArray", func(d []byte, nb, fb, lb *rjson.Buffer, vr *rjson.ValueReader) (int, error, bool) {
		_, p, e := vr.ReadArray(d)
		return p, e, true
	})
	// a reader primed by a successful, non-empty read, or by a failed one, right before the call
	// (size hints and partial state carried over; seeded changes C10r6-m2 / C15r6-m1: a hint clamped
	// to -1 for empty input)
	add("ValueReader.ReadArray(right after a non-empty array)", func(d []byte, nb, fb, lb *rjson.Buffer, vr *rjson.ValueReader) (int, error, bool) {
		vr.ReadArray(primeArr)
		_, p, e := vr.ReadArray(d)
		return p, e, true
	})
	add("ValueReader.ReadObject(right after a non-empty object)", func(d []byte, nb, fb, lb *rjson.Buffer, vr *rjson.ValueReader) (int, error, bool) {
		vr.ReadObject(primeObj)
		_, p, e := vr.ReadObject(d)
		return p, e, true
	})
	add("ValueReader.ReadValue(right after a failed read)", func(d []byte, nb, fb, lb *rjson.Buffer, vr *rjson.ValueReader) (int, error, bool) {
		vr.ReadValue(primeBad)
		_, p, e := vr.ReadValue(d)
		return p, e, true
	})
	add("ValueReader.ReadArray(right after a failed array)", func(d []byte, nb, fb, lb *rjson.Buffer, vr *rjson.ValueReader) (int, error, bool) {
		vr.ReadArray(primeBadArr)
		_, p, e := vr.ReadArray(d)
		return p, e, true
	})
	// the exported handler methods of ValueReader called directly, as a wrapping handler of the
	// caller's own would call them - with whatever data, not only what the machines pass
	// (seeded change C10r7-m1: index past the end for data that is all whitespace)
	add("ValueReader.HandleArrayValue(called directly)", func(d []byte, nb, fb, lb *rjson.Buffer, vr *rjson.ValueReader) (int, error, bool) {
		var own rjson.ValueReader
		p, e := own.HandleArrayValue(d)
		return p, e, true
	})
	add("ValueReader.HandleObjectValue(called directly from a wrapping handler)", func(d []byte, nb, fb, lb *rjson.Buffer, vr *rjson.ValueReader) (int, error, bool) {
		var own rjson.ValueReader
		var p int
		var e error
		called := false
		// inside a real traversal (so that the reader's result map exists), the wrapping handler hands
		// the reader the bytes under test instead of the member's
		own.ReadObject(primeObjOne)
		rjson.HandleObjectValues(primeObjOne, rjson.ObjectValueHandlerFunc(func(k, v []byte) (int, error) {
			if !called {
				called = true
				func() {
					defer func() {
						if r := recover(); r != nil {
							if fmt.Sprint(r) == "assignment to entry in nil map" {
								p, e = 0, errNilMapMisuse // a reader that is not inside ReadObject: receiver misuse, outside the property
								return
							}
							panic(r)
						}
					}()
					p, e = own.HandleObjectValue(k, d)
				}()
			}
			return 0, nil
		}), nil)
		if e == errNilMapMisuse {
			return 0, e, false
		}
		return p, e, true
	})
	add("ReadString(nil)", func(d []byte, nb, fb, lb *rjson.Buffer, vr *rjson.ValueReader) (int, error, bool) {
		_, p, e := rjson.ReadString(d, nil)
		return p, e, true
	})
	add("ReadString(buf)", func(d []byte, nb, fb, lb *rjson.Buffer, vr *rjson.ValueReader) (int, error, bool) {
		b := make([]byte, 3, 5)
		_, p, e := rjson.ReadString(d, &b)
		return p, e, true
	})
	add("ReadStringBytes(nil)", func(d []byte, nb, fb, lb *rjson.Buffer, vr *rjson.ValueReader) (int, error, bool) {
		_, p, e := rjson.ReadStringBytes(d, nil)
		return p, e, true
	})
	add("ReadStringBytes(tight dst)", func(d []byte, nb, fb, lb *rjson.Buffer, vr *rjson.ValueReader) (int, error, bool) {
		_, p, e := rjson.ReadStringBytes(d, make([]byte, 2, 3))
		return p, e, true
	})
	add("DecodeString", func(d []byte, nb, fb, lb *rjson.Buffer, vr *rjson.ValueReader) (int, error, bool) {
		var s string
		p, e := rjson.DecodeString(d, &s, nil)
		return p, e, true
	})
	add("UnescapeStringContent(nil)", func(d []byte, nb, fb, lb *rjson.Buffer, vr *rjson.ValueReader) (int, error, bool) {
		_, p, e := rjson.UnescapeStringContent(d, nil)
		return p, e, true
	})
	add("UnescapeStringContent(tight dst)", func(d []byte, nb, fb, lb *rjson.Buffer, vr *rjson.ValueReader) (int, error, bool) {
		_, p, e := rjson.UnescapeStringContent(d, make([]byte, 1, 2))
		return p, e, true
	})
	add("ReadInt64", func(d []byte, nb, fb, lb *rjson.Buffer, vr *rjson.ValueReader) (int, error, bool) {
		_, p, e := rjson.ReadInt64(d)
		return p, e, true
	})
	add("ReadInt32", func(d []byte, nb, fb, lb *rjson.Buffer, vr *rjson.ValueReader) (int, error, bool) {
		_, p, e := rjson.ReadInt32(d)
		return p, e, true
	})
	add("ReadInt", func(d []byte, nb, fb, lb *rjson.Buffer, vr *rjson.ValueReader) (int, error, bool) {
		_, p, e := rjson.ReadInt(d)
		return p, e, true
	})
	add("ReadUint64", func(d []byte, nb, fb, lb *rjson.Buffer, vr *rjson.ValueReader) (int, error, bool) {
		_, p, e := rjson.ReadUint64(d)
		return p, e, true
	})
	add("ReadUint32", func(d []byte, nb, fb, lb *rjson.Buffer, vr *rjson.ValueReader) (int, error, bool) {
		_, p, e := rjson.ReadUint32(d)
		return p, e, true
	})
	add("ReadUint", func(d []byte, nb, fb, lb *rjson.Buffer, vr *rjson.ValueReader) (int, error, bool) {
		_, p, e := rjson.ReadUint(d)
		return p, e, true
	})
	add("ReadFloat64", func(d []byte, nb, fb, lb *rjson.Buffer, vr *rjson.ValueReader) (int, error, bool) {
		_, p, e := rjson.ReadFloat64(d)
		return p, e, true
	})
	add("ReadBool", func(d []byte, nb, fb, lb *rjson.Buffer, vr *rjson.ValueReader) (int, error, bool) {
		_, p, e := rjson.ReadBool(d)
		return p, e, true
	})
	add("ReadNull", func(d []byte, nb, fb, lb *rjson.Buffer, vr *rjson.ValueReader) (int, error, bool) {
		p, e := rjson.ReadNull(d)
		return p, e, true
	})
	add("NextToken", func(d []byte, nb, fb, lb *rjson.Buffer, vr *rjson.ValueReader) (int, error, bool) {
		_, p, e := rjson.NextToken(d)
		return p, e, true
	})
	add("NextTokenType", func(d []byte, nb, fb, lb *rjson.Buffer, vr *rjson.ValueReader) (int, error, bool) {
		_, p, e := rjson.NextTokenType(d)
		return p, e, true
	})
	add("DecodeBool", func(d []byte, nb, fb, lb *rjson.Buffer, vr *rjson.ValueReader) (int, error, bool) {
		var v bool
		p, e := rjson.DecodeBool(d, &v)
		return p, e, true
	})
	add("DecodeFloat64", func(d []byte, nb, fb, lb *rjson.Buffer, vr *rjson.ValueReader) (int, error, bool) {
		var v float64
		p, e := rjson.DecodeFloat64(d, &v)
		return p, e, true
	})
	add("DecodeInt64", func(d []byte, nb, fb, lb *rjson.Buffer, vr *rjson.ValueReader) (int, error, bool) {
		var v int64
		p, e := rjson.DecodeInt64(d, &v)
		return p, e, true
	})
	add("DecodeInt32", func(d []byte, nb, fb, lb *rjson.Buffer, vr *rjson.ValueReader) (int, error, bool) {
		var v int32
		p, e := rjson.DecodeInt32(d, &v)
		return p, e, true
	})
	add("DecodeInt", func(d []byte, nb, fb, lb *rjson.Buffer, vr *rjson.ValueReader) (int, error, bool) {
		var v int
		p, e := rjson.DecodeInt(d, &v)
		return p, e, true
	})
	add("DecodeUint64", func(d []byte, nb, fb, lb *rjson.Buffer, vr *rjson.ValueReader) (int, error, bool) {
		var v uint64
		p, e := rjson.DecodeUint64(d, &v)
		return p, e, true
	})
	add("DecodeUint32", func(d []byte, nb, fb, lb *rjson.Buffer, vr *rjson.ValueReader) (int, error, bool) {
		var v uint32
		p, e := rjson.DecodeUint32(d, &v)
		return p, e, true
	})
	add("DecodeUint", func(d []byte, nb, fb, lb *rjson.Buffer, vr *rjson.ValueReader) (int, error, bool) {
		var v uint
		p, e := rjson.DecodeUint(d, &v)
		return p, e, true
	})
	add("TokenType.String", func(d []byte, nb, fb, lb *rjson.Buffer, vr *rjson.ValueReader) (int, error, bool) {
		t, _, _ := rjson.NextTokenType(d)
		_ = t.String()
		for _, b := range d {
			_ = rjson.TokenType(b).String()
			if len(d) > 64 {
				break
			}
		}
		return 0, nil, false
	})
	add("StdLibCompatibleString", func(d []byte, nb, fb, lb *rjson.Buffer, vr *rjson.ValueReader) (int, error, bool) {
		rjson.StdLibCompatibleString(string(d))
		return 0, nil, false
	})
	add("StdLibCompatibleStringBytes", func(d []byte, nb, fb, lb *rjson.Buffer, vr *rjson.ValueReader) (int, error, bool) {
		rjson.StdLibCompatibleStringBytes(d, make([]byte, 1, 2))
		return 0, nil, false
	})
	add("StdLibCompatibleSlice/Map", func(d []byte, nb, fb, lb *rjson.Buffer, vr *rjson.ValueReader) (int, error, bool) {
		s := string(d)
		rjson.StdLibCompatibleSlice([]interface{}{s, []interface{}{s, nil}, map[string]interface{}{s: s}, 1.5, true, nil})
		rjson.StdLibCompatibleMap(map[string]interface{}{s: []interface{}{s}, "k": map[string]interface{}{s: nil}})
		rjson.StdLibCompatibleSlice(nil)
		rjson.StdLibCompatibleMap(nil)
		return 0, nil, false
	})
	return out
}()

// C10: every entry point is total and memory-safe on hostile input and handlers.
func RunC10(c *Ctx) {
	var long rjson.Buffer
	var vr rjson.ValueReader
	vrBait := &rjson.ValueReader{}
	guard, gerr := h.NewGuard(16 << 20)
	if gerr != nil {
		c.Rec.R.Notes = append(c.Rec.R.Notes, "guard pages unavailable: "+gerr.Error())
	}
	process := func(cs *h.Case) {
		d := cs.Input
		var fresh rjson.Buffer
		// half of the inputs go through the handler traversals FIRST and the plain entry points
		// afterwards, so that both the per-input and the long-lived Buffer also meet the skip
		// machines in the state the handler machines leave them in (seeded change C10r2-m2)
		handlersFirst := h.Hash(d)&1 == 1
		if handlersFirst {
			c.Rec.C("inputs_with_handler_traversals_first")
			hostile(c, cs, d, &fresh, &long)
		}
		for _, call := range allAPI {
			call := call
			c.LC.SetMeta("C10 " + call.name)
			c.Guarded(cs, call.name, func() {
				p, err, hasP := call.f(d, nil, &fresh, &long, &vr)
				c.Rec.Evals(1)
				c.Rec.R.Counters["calls_"+apiBase(call.name)]++
				if hasP && err == nil && (p < 0 || p > len(d)) {
					c.Rec.Violate(cs, "offset outside [0,len] returned with a nil error", call.name, fmt.Sprintf("0 <= p <= %d", len(d)), fmt.Sprintf("p=%d", p))
				}
				// the same call on a copy whose SPARE CAPACITY holds plausible continuations: the
				// result may depend on data[:len] only (the guard-page copy has cap == len, so an
				// over-read through the capacity panics there and mis-parses here; seeded change C10r2-m1)
				if len(d) <= 96 && hasP && !strings.Contains(call.name, "reused") && !strings.HasPrefix(call.name, "ValueReader.") {
					p2, err2, _ := call.f(withBait(d), nil, &fresh, &long, vrBait)
					c.Rec.Evals(1)
					c.Rec.C("calls_repeated_with_bait_in_spare_capacity")
					if p2 != p || (err2 == nil) != (err == nil) {
						c.Rec.Violate(cs, "result depends on bytes beyond len(data) (spare capacity)", call.name, fmt.Sprintf("p=%d err=%s", p, errStr(err)), fmt.Sprintf("p=%d err=%s", p2, errStr(err2)))
					}
				}
			})
		}
		if !handlersFirst {
			hostile(c, cs, d, &fresh, &long)
		}
		c.Rec.Max("max_input_length", int64(len(d)))
	}

	// batching through read-only guard pages
	type pending struct {
		cs h.Case
	}
	var batch []pending
	var gb *h.GuardBatch
	flush := func() {
		if gb != nil {
			gb.Seal()
		}
		for i := range batch {
			cs := &batch[i].cs
			c.Mark("C10 "+cs.Family, cs.Input)
			process(cs)
		}
		batch = batch[:0]
		gb = nil
	}
	add := func(cs *h.Case) {
		cp := *cs
		cp.Desc = cs.Describe()
		cp.DescFn = nil
		if guard != nil {
			if gb == nil {
				gb = guard.Begin()
			}
			in, ok := gb.Add(cs.Input)
			if !ok {
				flush()
				gb = guard.Begin()
				in, ok = gb.Add(cs.Input)
			}
			if ok {
				cp.Input = in
				c.Rec.C("inputs_in_read_only_pages")
			} else {
				cp.Input = append([]byte(nil), cs.Input...)
			}
		} else {
			cp.Input = append([]byte(nil), cs.Input...)
		}
		batch = append(batch, pending{cp})
		if len(batch) >= 4096 {
			flush()
		}
	}
	if c.Replay != nil {
		cs := &h.Case{Family: c.Replay.Family, Desc: c.Replay.Desc, Input: c.Replay.Input()}
		add(cs)
		flush()
		return
	}
	sink := func(cs *h.Case) {
		if !c.Mine(cs.Input) {
			return
		}
		c.Rec.R.Cases++
		c.Rec.R.Counters["family_"+cs.Family]++
		if len(cs.Input) > 1 {
			c.Rec.R.Nontrivial++
		}
		add(cs)
	}
	// raw random bytes and structural soups
	nraw := 60000
	if c.Thorough() {
		nraw = 1500000
	}
	raw := &h.Case{Family: "raw"}
	structural := []byte(`[]{}",:\ tfn0123456789-+.eEu`)
	for i := 0; i < nraw; i++ {
		r := workload.NewRand(c.Seed, uint64(i)+77000000)
		l := r.Intn(40)
		b := make([]byte, l)
		for j := range b {
			if i%2 == 0 {
				b[j] = byte(r.Intn(256))
			} else {
				b[j] = structural[r.Intn(len(structural))]
			}
		}
		raw.Input = b
		raw.Desc = fmt.Sprintf("raw bytes #%d", i)
		sink(raw)
	}
	// backslash followed by every byte value, at the end and in the middle of the input, bare and
	// inside quotes (the string machines each have their own state after a backslash)
	for b := 0; b < 256; b++ {
		for _, shape := range []string{"%s", "x%s", "%sx", "\"%s", "\"%s\"", "\"a%s", "[\"%s\"]", "{\"%s\":1}", "%s%s"} {
			e := string([]byte{'\\', byte(b)})
			raw.Input = []byte(strings.ReplaceAll(shape, "%s", e))
			raw.Desc = fmt.Sprintf("backslash + byte 0x%02x in shape %q", b, shape)
			sink(raw)
		}
	}
	if c.Thorough() {
		workload.W1(true, sink)
		workload.W3(1500000, c.Seed, sink)
		workload.W4Thorough(sink)
		workload.W2(16, c.Seed, sink)
		workload.W5([]int{1000, 70000, 1 << 20, 4 << 20}, sink)
	} else {
		// a fifth of the W1 sweep, rotating with the seed
		workload.W1(false, func(cs *h.Case) {
			if (cs.P[0]+int(c.Seed))%5 == 0 {
				sink(cs)
			}
		})
		workload.W3(100000, c.Seed, sink)
		workload.W4Quick(sink)
		workload.W2(200, c.Seed, sink)
		workload.W5([]int{1000, 70000, 1 << 20}, sink)
	}
	// sizes: every length 1..600 of every repeatable unit (keys, strings, digits, whitespace, members),
	// power-of-two string lengths, widths and sibling patterns, every depth 1..130 with every last
	// opener - a table indexed by a length or a count is the classic place for an off-by-one panic
	// (seeded change C10r8-m2: a 64-slot per-length key cache with a guard of '> 64'); thinned to a
	// third in the quick tier
	third := func(cs *h.Case) {
		if c.Thorough() || (cs.P[1]+int(c.Seed))%3 == 0 {
			sink(cs)
		}
	}
	workload.W1Len(third)
	workload.W1Pow(sink)
	workload.W1Width(third)
	workload.W1Depth(third)
	workload.W1RL(third)
	// number and string token families: every decimal exponent, thresholds, every surrogate
	workload.W6Exponents(3, c.Seed, sink)
	workload.W6Special(sink)
	workload.W6Rows(1, c.Seed, sink)
	workload.W7Surrogates(0, sink)
	if c.Thorough() {
		workload.W7Templates(sink)
		workload.W6Generic(3000, false, c.Seed, sink)
	} else {
		workload.W7Templates(func(cs *h.Case) {
			if (cs.P[2]+cs.P[3]+int(c.Seed))%8 == 0 {
				sink(cs)
			}
		})
		workload.W6Generic(300, false, c.Seed, sink)
	}
	flush()
	if guard != nil {
		guard.Close()
	}
}

type declineAllArr struct{}

func (declineAllArr) HandleArrayValue(data []byte) (int, error) { return 0, nil }

type declineAllObj struct{}

func (declineAllObj) HandleObjectValue(fieldname, data []byte) (int, error) { return 0, nil }

// hostile runs both traversals under hostile handler programs, then the generic decoder as handler.
func hostile(c *Ctx, cs *h.Case, d []byte, freshp, longp *rjson.Buffer) {
	fresh, long := freshp, longp
	// hostile handler programs
	nprog := 6
	if c.Thorough() {
		nprog = 16
	}
	me := &memberEnds{doc: d, m: map[int]int{}}
	for kind := 0; kind < 2; kind++ {
		for prog := 0; prog < nprog; prog++ {
			r := workload.NewRand(c.Seed, h.Hash(d)+uint64(prog)*131+uint64(kind))
			pr := &probe{doc: d}
			if len(d) > 100000 {
				pr.limit = 64
			}
			mustFail := false
			why := ""
			classes := map[string]int{}
			big := len(d) > 100000
			// every third program re-enters the library from inside the callback with the traversal's own Buffer
			// (the documented way to save allocations) before it answers with its hostile offset (seeded change
			// C10r10-m1: a 'busy' flag in the Buffer that panics on what it takes for concurrent use)
			var reenter *rjson.Buffer
			if prog%3 == 2 && !big {
				reenter = bufOf(prog, fresh, long)
				if reenter != nil {
					c.Rec.C("hostile_programs_that_reenter_with_the_traversals_buffer")
				}
			}
			pr.answer = func(i, off int, data []byte) (int, error) {
				if i > 64 && big { // bound the work on megabyte inputs
					return 0, nil
				}
				if reenter != nil && i < 8 {
					switch (i + prog) % 5 {
					case 0:
						rjson.SkipValue(data, reenter)
					case 1:
						rjson.SkipValueFast(data, reenter)
					case 2:
						rjson.Valid(data, reenter)
					case 3:
						rjson.HandleArrayValues(data, declineAllArr{}, reenter)
					default:
						rjson.HandleObjectValues(data, declineAllObj{}, reenter)
					}
				}
				exact := 0
				if !big {
					if e := me.end(off); e > 0 {
						exact = e
					}
				}
				ret, class := hostileOffset(r, len(data), exact)
				scalar := true
				if len(data) > 0 && (data[0] == '"' || data[0] == '[' || data[0] == '{') {
					scalar = false
				}
				if scalar {
					classes["ignored_scalar_member"]++
				} else {
					classes[class]++
					if ret < 0 || ret > len(data) {
						if !mustFail {
							why = fmt.Sprintf("call %d on %s member returned %d with %d bytes remaining", i, memberKindAt(d, off), ret, len(data))
						}
						mustFail = true
					}
				}
				return ret, nil
			}
			buf := bufOf(prog, fresh, long)
			var p int
			var err error
			c.LC.SetMeta(fmt.Sprintf("C10 %s hostile program %d", kindName[kind], prog))
			if c.Guarded(cs, kindName[kind]+" (hostile handler)", func() { p, err = traverse(kind, d, pr, buf) }) {
				continue
			}
			c.Rec.Evals(1)
			c.Rec.C("hostile_programs_run")
			for k, n := range classes {
				c.Rec.Count("hostile_offsets_"+k, int64(n))
			}
			script := fmt.Sprintf("hostile program %d: %s", prog, logString(pr.log))
			if err == nil && (p < 0 || p > len(d)) {
				c.Rec.AddViolation(h.Violation{Property: c.Prop, Oracle: "offset outside [0,len] returned with a nil error", Entry: kindName[kind], Family: cs.Family, Desc: cs.Describe(), InputB64: b64(d), InputQ: h.Quote(d), Script: script, Expected: fmt.Sprintf("0 <= p <= %d", len(d)), Observed: fmt.Sprintf("p=%d", p), Seed: c.Seed, Tier: c.Tier})
			}
			if mustFail {
				c.Rec.C("out_of_range_offsets_that_must_be_reported")
				if err == nil {
					c.Rec.AddViolation(h.Violation{Property: c.Prop, Oracle: "handler offset that does not fit inside the input is not reported as an error", Entry: kindName[kind], Family: cs.Family, Desc: cs.Describe(), InputB64: b64(d), InputQ: h.Quote(d), Script: script, Expected: "error (" + why + ")", Observed: fmt.Sprintf("p=%d err=<nil>", p), Seed: c.Seed, Tier: c.Tier})
				}
			}
			if mustFail && len(pr.log) > 1 && c.Rec.CN("hostile_programs_eligible_as_samples")%2003 == 1 && c.Rec.WantSample() {
				c.Rec.Sample(map[string]interface{}{"input": h.Quote(d), "how": cs.Describe(), "entry": kindName[kind], "program": script, "p": p, "err": errStr(err)})
			}
		}
		// the generic decoder itself as the handler (documented use of ValueReader)
		c.Guarded(cs, kindName[kind]+" (ValueReader as handler via ReadValue)", func() {
			var v2 rjson.ValueReader
			if kind == 0 {
				v2.ReadArray(d)
			} else {
				v2.ReadObject(d)
			}
			c.Rec.Evals(1)
		})
	}
}

func apiBase(name string) string {
	if i := strings.IndexByte(name, '('); i > 0 {
		return name[:i]
	}
	return name
}
