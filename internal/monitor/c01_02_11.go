package monitor

import (
	"fmt"

	"github.com/willabides/rjson"

	h "verif/internal/harness"
	"verif/internal/refmodel"
)

func firstTokenPlausible(d []byte) bool {
	for _, b := range d {
		switch b {
		case ' ', '\t', '\r', '\n':
			continue
		case '{', '[', '"', '-', 't', 'f', 'n':
			return true
		}
		return b >= '0' && b <= '9'
	}
	return false
}

// C01: Valid == model == encoding/json, for nil / fresh / long-lived buffers.
func RunC01(c *Ctx) {
	var long rjson.Buffer
	deep := deepDirtyBuffer()
	c.Rec.Max("max_stack_len_of_buffer_previously_used_by_handler_traversals", int64(stackLen(deep)))
	fams := []string{"W1", "W3", "W4", "W2", "W2T", "W1R", "W5small"}
	concurrentPure(c, "Valid(data, nil) / Valid(data, own Buffer)", func(d []byte) string {
		var own rjson.Buffer
		return fmt.Sprint(rjson.Valid(d, nil), rjson.Valid(d, &own))
	})
	c.RunDocs(fams, func(cs *h.Case) {
		d := cs.Input
		m := c.Parse(cs)
		if len(d) >= 2 && firstTokenPlausible(d) {
			c.Rec.R.Nontrivial++
		}
		if m.Valid {
			c.Rec.C("class_valid")
		} else if m.OK {
			c.Rec.C("class_wellformed_value_then_garbage")
		} else {
			c.Rec.C("class_malformed")
		}
		c.Guarded(cs, "Valid", func() {
			var fresh rjson.Buffer
			g0 := rjson.Valid(d, nil)
			g1 := rjson.Valid(d, &fresh)
			g2 := rjson.Valid(d, &long)
			g3 := rjson.Valid(d, deep)
			c.Rec.Evals(4)
			if g3 != m.Valid {
				c.Rec.Violate(cs, "Valid(buffer previously used by deep handler traversals)!=model", "Valid", fmt.Sprint(m.Valid), fmt.Sprint(g3))
			}
			if g0 != m.Valid {
				c.Rec.Violate(cs, "Valid(nil)!=model", "Valid", fmt.Sprint(m.Valid), fmt.Sprint(g0))
			}
			if g1 != m.Valid {
				c.Rec.Violate(cs, "Valid(fresh)!=model", "Valid", fmt.Sprint(m.Valid), fmt.Sprint(g1))
			}
			if g2 != m.Valid {
				c.Rec.Violate(cs, "Valid(reused)!=model", "Valid", fmt.Sprint(m.Valid), fmt.Sprint(g2))
			}
			if c.Rec.WantSample() && c.Rec.R.Cases%9973 == 1 {
				c.Rec.Sample(map[string]interface{}{"input": h.Quote(d), "how": cs.Describe(), "model_valid": m.Valid, "rjson_valid_nil": g0, "rjson_valid_fresh": g1, "rjson_valid_reused": g2})
			}
		})
	})
}

// C02: SkipValue == model (== json.Decoder), with nil and reused buffers.
func RunC02(c *Ctx) {
	var long rjson.Buffer
	deep := deepDirtyBuffer()
	fams := []string{"W1", "W1F", "W3", "W4", "W2", "W2T", "W1R", "W5small"}
	concurrentPure(c, "SkipValue(data, nil) / SkipValue(data, own Buffer)", func(d []byte) string {
		var own rjson.Buffer
		p1, e1 := rjson.SkipValue(d, nil)
		p2, e2 := rjson.SkipValue(d, &own)
		return fmt.Sprint(p1, errStr(e1), p2, errStr(e2))
	})
	c.RunDocs(fams, func(cs *h.Case) {
		d := cs.Input
		m := c.Parse(cs)
		if len(d) >= 2 && firstTokenPlausible(d) {
			c.Rec.R.Nontrivial++
		}
		if m.OK {
			c.Rec.C("class_wellformed_first_value")
			if m.Node.End < len(d) {
				c.Rec.C("class_wellformed_with_following_bytes")
			}
		} else {
			c.Rec.C("class_malformed")
		}
		// a fifth Buffer state: the Buffer is the one the ENCLOSING handler traversal is using (the
		// documented way to skip a member from inside a handler); SkipValue on the member must behave
		// as on any other byte string (seeded change C02r8-m1: a 'Buffer in use' guard)
		if m.OK && len(d) <= 4096 && (m.Node.Kind == refmodel.KArray || m.Node.Kind == refmodel.KObject) && c.Rec.R.Cases%4 == 0 {
			c.Guarded(cs, "SkipValue (from inside a handler, with the traversal's Buffer)", func() {
				i := 0
				check := func(data []byte) (int, error) {
					if i < len(m.Node.Elems) {
						el := m.Node.Elems[i]
						p, err := rjson.SkipValue(data, &long)
						c.Rec.Evals(1)
						c.Rec.C("skipvalue_calls_from_inside_a_handler_with_the_traversals_buffer")
						if err != nil || p != el.End-el.Start {
							c.Rec.Violate(cs, "SkipValue(member, the enclosing traversal's Buffer) != end of the member", "SkipValue", fmt.Sprintf("p=%d err=<nil>", el.End-el.Start), fmt.Sprintf("member %d: p=%d err=%s", i, p, errStr(err)))
						}
					}
					i++
					return 0, nil
				}
				if m.Node.Kind == refmodel.KArray {
					rjson.HandleArrayValues(d, rjson.ArrayValueHandlerFunc(check), &long)
				} else {
					rjson.HandleObjectValues(d, rjson.ObjectValueHandlerFunc(func(k, data []byte) (int, error) { return check(data) }), &long)
				}
			})
		}
		c.Guarded(cs, "SkipValue", func() {
			var fresh rjson.Buffer
			for i, b := range []*rjson.Buffer{nil, &fresh, &long, deep} {
				p, err := rjson.SkipValue(d, b)
				c.Rec.Evals(1)
				name := [...]string{"nil", "fresh", "reused", "buffer previously used by deep handler traversals"}[i]
				if (err == nil) != m.OK {
					c.Rec.Violate(cs, "SkipValue("+name+") success!=model", "SkipValue", fmt.Sprintf("ok=%v", m.OK), fmt.Sprintf("p=%d err=%s", p, errStr(err)))
				} else if m.OK && p != m.Node.End {
					c.Rec.Violate(cs, "SkipValue("+name+") offset!=model", "SkipValue", fmt.Sprintf("p=%d", m.Node.End), fmt.Sprintf("p=%d", p))
				}
				if i == 0 && c.Rec.WantSample() && c.Rec.R.Cases%9973 == 1 {
					want := -1
					if m.OK {
						want = m.Node.End
					}
					c.Rec.Sample(map[string]interface{}{"input": h.Quote(d), "how": cs.Describe(), "model_ok": m.OK, "model_end": want, "rjson_p": p, "rjson_err": errStr(err)})
				}
			}
		})
	})
}

// C11: wherever SkipValue succeeds, SkipValueFast succeeds with the same offset.
func RunC11(c *Ctx) {
	var long rjson.Buffer
	deep := deepDirtyBuffer()
	fams := []string{"W1", "W1F", "W3", "W4", "W2", "W2T", "W1R", "W5small"}
	concurrentPure(c, "SkipValueFast(data, nil) / SkipValueFast(data, own Buffer)", func(d []byte) string {
		var own rjson.Buffer
		p1, e1 := rjson.SkipValueFast(d, nil)
		p2, e2 := rjson.SkipValueFast(d, &own)
		return fmt.Sprint(p1, errStr(e1), p2, errStr(e2))
	})
	c.RunDocs(fams, func(cs *h.Case) {
		d := cs.Input
		c.Guarded(cs, "SkipValueFast", func() {
			p, err := rjson.SkipValue(d, nil)
			c.Rec.Evals(1)
			if err != nil {
				// "every input on which SkipValue succeeds" includes successes that only occur with a
				// particular Buffer state (seeded change C11r5-m2: SkipValue's depth check skipped on
				// a Buffer grown by a deep handler traversal)
				for _, b := range []*rjson.Buffer{&long, deep} {
					if pb, eb := rjson.SkipValue(d, b); eb == nil {
						p, err = pb, nil
						c.Rec.C("skipvalue_succeeded_only_with_a_used_buffer")
						break
					}
				}
				c.Rec.Evals(2)
			}
			if err != nil {
				// outside the property; still run the fast skipper (any panic is reported)
				rjson.SkipValueFast(d, &long)
				c.Rec.Evals(1)
				c.Rec.C("skipvalue_failed_fast_unconstrained")
				return
			}
			c.Rec.R.Nontrivial++
			c.Rec.C("skipvalue_succeeded")
			if hasStructuralInString(d[:p]) {
				c.Rec.C("with_bracket_quote_or_backslash_inside_string")
			}
			var fresh rjson.Buffer
			// the long-lived Buffer is shared by BOTH skippers, as a caller that picks the skipper per
			// member would share it: SkipValue leaves its stack in a state that SkipValueFast never
			// produces on its own (seeded change C11r6-m1: cap(stack) tested where len(stack) matters)
			if c.Rec.R.Cases%2 == 0 {
				rjson.SkipValue(d[:len(d)/2], &long)
				c.Rec.Evals(1)
			}
			for i, b := range []*rjson.Buffer{nil, &fresh, &long, deep} {
				pf, errf := rjson.SkipValueFast(d, b)
				c.Rec.Evals(1)
				name := [...]string{"nil", "fresh", "reused", "buffer previously used by deep handler traversals"}[i]
				if errf != nil {
					c.Rec.Violate(cs, "SkipValueFast("+name+") fails where SkipValue succeeds", "SkipValueFast", fmt.Sprintf("p=%d err=<nil>", p), fmt.Sprintf("p=%d err=%s", pf, errStr(errf)))
				} else if pf != p {
					c.Rec.Violate(cs, "SkipValueFast("+name+") offset!=SkipValue", "SkipValueFast", fmt.Sprintf("p=%d", p), fmt.Sprintf("p=%d", pf))
				}
				if i == 0 && c.Rec.WantSample() && c.Rec.R.Cases%9973 == 1 {
					c.Rec.Sample(map[string]interface{}{"input": h.Quote(d), "how": cs.Describe(), "skipvalue_p": p, "skipvaluefast_p": pf, "skipvaluefast_err": errStr(errf)})
				}
			}
		})
	})
}

func hasStructuralInString(d []byte) bool {
	in := false
	for i := 0; i < len(d); i++ {
		b := d[i]
		if in {
			switch b {
			case '\\':
				return true
			case '[', ']', '{', '}':
				return true
			case '"':
				in = false
			}
			continue
		}
		if b == '"' {
			in = true
		}
	}
	return false
}
