package monitor

import (
	"bytes"
	"fmt"
	"strings"

	"github.com/willabides/rjson"

	h "verif/internal/harness"
	"verif/internal/refmodel"
	"verif/internal/workload"
)

func dirty(n int, seed byte) []byte {
	b := make([]byte, n)
	for i := range b {
		b[i] = seed + byte(i*7)
	}
	return b
}

// C06: string tokens validated and decoded per RFC 8259, raw bytes preserved.
func RunC06(c *Ctx) {
	scratch := dirty(64, 0xa5)
	// a scratch that starts out as 'var scratch []byte' (zero capacity) and is then reused, and the
	// last few strings returned through it: a decoded string must stay what it was when later calls
	// reuse the scratch (seeded change C06r5-m1 returned the freshly grown scratch itself)
	var lazy []byte
	bigScratch := make([]byte, 0, 128<<10)
	type heldStr struct{ got, want string }
	var held, heldNil []heldStr
	check := func(cs *h.Case) {
		d := cs.Input
		p0 := refmodel.SkipWS(d, 0)
		ws, wend, wok := refmodel.ScanString(d, p0)
		if wok {
			c.Rec.C("wellformed_tokens")
			raw := d[p0+1 : wend-1]
			if bytes.IndexByte(raw, '\\') >= 0 {
				c.Rec.C("tokens_with_escapes")
			}
			if !bytes.Equal(raw, ws) && bytes.Contains(raw, []byte(`\u`)) {
				c.Rec.C("tokens_with_unicode_escapes")
			}
		} else {
			c.Rec.C("malformed_tokens")
		}
		if bytes.IndexByte(d, '\\') >= 0 || hasHighOrControl(d) {
			c.Rec.R.Nontrivial++
		}
		exp := fmt.Sprintf("ok=%v val=%q p=%d", wok, ws, wend)
		c.Guarded(cs, "ReadStringBytes", func() {
			got, p, err := rjson.ReadStringBytes(d, nil)
			c.Rec.Evals(1)
			if (err == nil) != wok {
				c.Rec.Violate(cs, "ReadStringBytes success!=model", "ReadStringBytes", exp, fmt.Sprintf("val=%q p=%d err=%s", got, p, errStr(err)))
			} else if wok && (!bytes.Equal(got, ws) || p != wend) {
				c.Rec.Violate(cs, "ReadStringBytes value/offset!=model", "ReadStringBytes", exp, fmt.Sprintf("val=%q p=%d", got, p))
			}
			// the input as a prefix of a larger buffer whose spare capacity holds a low-surrogate escape
			// and a closing quote: the result may depend on data[:len] only
			if len(d) <= 256 {
				gb, pb, eb := rjson.ReadStringBytes(withBait(d), nil)
				c.Rec.Evals(1)
				c.Rec.C("calls_repeated_with_bait_in_spare_capacity")
				if (eb == nil) != (err == nil) || pb != p || (err == nil && !bytes.Equal(gb, got)) {
					c.Rec.Violate(cs, "ReadStringBytes result depends on bytes beyond len(data)", "ReadStringBytes", fmt.Sprintf("val=%q p=%d err=%s", got, p, errStr(err)), fmt.Sprintf("val=%q p=%d err=%s", gb, pb, errStr(eb)))
				}
			}
			// growth boundaries: destinations of every capacity 0..need+2 (short tokens) or a few (long)
			if wok {
				need := len(ws)
				caps := []int{0, 1, need - 1, need, need + 1, need + 4}
				if need <= 24 && c.Rec.R.Cases%8 == 0 {
					caps = caps[:0]
					for k := 0; k <= need+2; k++ {
						caps = append(caps, k)
					}
				}
				for _, k := range caps {
					if k < 0 {
						continue
					}
					dst := make([]byte, 0, k)
					g2, p2, e2 := rjson.ReadStringBytes(d, dst)
					c.Rec.Evals(1)
					c.Rec.C("growth_boundary_calls")
					if e2 != nil || !bytes.Equal(g2, ws) || p2 != wend {
						c.Rec.Violate(cs, "ReadStringBytes(dst cap) value/offset!=model", "ReadStringBytes", exp, fmt.Sprintf("cap=%d val=%q p=%d err=%s", k, g2, p2, errStr(e2)))
					}
					// the same with a destination that already holds two bytes: the content must follow them
					dst3 := append(make([]byte, 0, k+2), 'k', '=')
					g3, p3, e3 := rjson.ReadStringBytes(d, dst3)
					c.Rec.Evals(1)
					if e3 != nil || len(g3) < 2 || g3[0] != 'k' || g3[1] != '=' || !bytes.Equal(g3[2:], ws) || p3 != wend {
						c.Rec.Violate(cs, "ReadStringBytes(non-empty dst) does not return the existing bytes followed by the content", "ReadStringBytes", fmt.Sprintf("%q p=%d", append([]byte("k="), ws...), wend), fmt.Sprintf("cap=%d val=%q p=%d err=%s", k+2, g3, p3, errStr(e3)))
					}
				}
			}
		})
		c.Guarded(cs, "ReadString", func() {
			for i := 0; i < 4; i++ {
				var buf *[]byte
				name := "ReadString(nil)"
				if i == 3 {
					if len(d) > 256 && c.Rec.R.Cases%4 != 0 {
						continue
					}
					buf = &bigScratch
					name = "ReadString(128 KiB scratch)"
				}
				if i == 1 {
					buf = &scratch
					name = "ReadString(dirty scratch)"
				} else if i == 2 {
					if c.Rec.R.Cases%5 == 0 {
						lazy = nil
					}
					buf = &lazy
					name = "ReadString(scratch that started with zero capacity)"
				}
				got, p, err := rjson.ReadString(d, buf)
				if i == 0 {
					// strings returned WITHOUT a scratch are held as well: the generators refill one input
					// buffer, so a string backed by the input changes with the next case (C06r7-m2)
					for _, hs := range heldNil {
						if hs.got != hs.want {
							c.Rec.Violate(cs, "a string returned by ReadString(data, nil) changed when the caller's input buffer was refilled", "ReadString", h.Quote([]byte(hs.want)), h.Quote([]byte(hs.got)))
							heldNil = heldNil[:0]
							break
						}
					}
					if err == nil && len(got) <= 512 {
						if len(heldNil) >= 4 {
							heldNil = heldNil[1:]
						}
						heldNil = append(heldNil, heldStr{got, strings.Clone(got)})
					}
				}
				if i == 2 {
					for _, hs := range held {
						if hs.got != hs.want {
							c.Rec.Violate(cs, "a string returned earlier changed when the scratch buffer was reused", "ReadString", h.Quote([]byte(hs.want)), h.Quote([]byte(hs.got)))
							held = held[:0]
							break
						}
					}
					if err == nil && len(got) <= 512 {
						if len(held) >= 4 {
							held = held[1:]
						}
						held = append(held, heldStr{got, strings.Clone(got)})
						c.Rec.C("returned_strings_held_across_scratch_reuse")
					}
				}
				c.Rec.Evals(1)
				if (err == nil) != wok {
					c.Rec.Violate(cs, name+" success!=model", "ReadString", exp, fmt.Sprintf("val=%q p=%d err=%s", got, p, errStr(err)))
				} else if wok && (got != string(ws) || p != wend) {
					c.Rec.Violate(cs, name+" value/offset!=model", "ReadString", exp, fmt.Sprintf("val=%q p=%d", got, p))
				}
			}
		})
		c.Guarded(cs, "DecodeString (target correlated with the raw input)", func() {
			// the target already holds what the raw bytes of the token look like (or the decoded value):
			// a 'value unchanged' shortcut must still validate and decode (seeded change C06r7-m1)
			for _, t := range rawStringTargets(d) {
				sv := t
				p, err := rjson.DecodeString(d, &sv, nil)
				c.Rec.Evals(1)
				if wok && (err != nil || sv != string(ws) || p != wend) {
					c.Rec.Violate(cs, "DecodeString(target correlated with the input) value/offset!=model", "DecodeString", exp, fmt.Sprintf("prior target %q: val=%q p=%d err=%s", t, sv, p, errStr(err)))
				} else if !wok && !startsWithNull(d) && (err == nil || sv != t) {
					c.Rec.Violate(cs, "DecodeString(target correlated with the input) accepts a malformed token or writes the target", "DecodeString", exp, fmt.Sprintf("prior target %q: val=%q p=%d err=%s", t, sv, p, errStr(err)))
				}
			}
		})
		c.Guarded(cs, "DecodeString", func() {
			sv := "sentinel"
			p, err := rjson.DecodeString(d, &sv, &scratch)
			c.Rec.Evals(1)
			if wok {
				if err != nil || sv != string(ws) || p != wend {
					c.Rec.Violate(cs, "DecodeString value/offset!=model", "DecodeString", exp, fmt.Sprintf("val=%q p=%d err=%s", sv, p, errStr(err)))
				}
			} else if !startsWithNull(d) {
				if err == nil {
					c.Rec.Violate(cs, "DecodeString succeeds on malformed token", "DecodeString", exp, fmt.Sprintf("val=%q p=%d", sv, p))
				} else if sv != "sentinel" {
					c.Rec.Violate(cs, "DecodeString wrote target on error", "DecodeString", "target unchanged", fmt.Sprintf("val=%q", sv))
				}
			}
		})
		if wok {
			c.Guarded(cs, "UnescapeStringContent", func() {
				content := d[p0+1 : wend-1]
				if len(content) <= 256 {
					gb, pb, eb := rjson.UnescapeStringContent(withBait(content), nil)
					c.Rec.Evals(1)
					if eb != nil || !bytes.Equal(gb, ws) || pb != len(content) {
						c.Rec.Violate(cs, "UnescapeStringContent result depends on bytes beyond len(data)", "UnescapeStringContent", fmt.Sprintf("val=%q p=%d err=<nil>", ws, len(content)), fmt.Sprintf("val=%q p=%d err=%s", gb, pb, errStr(eb)))
					}
				}
				for i := 0; i < 4; i++ {
					var dst []byte
					switch i {
					case 1:
						dst = make([]byte, 0, len(ws)/2)
					case 2:
						dst = dirty(32, 0x5a)[:0] // small, dirty, with spare capacity (C06r6-m2)
					case 3:
						dst = append(dirty(40, 0x5a)[:0], 'k', '=')
					}
					got, p, err := rjson.UnescapeStringContent(content, dst)
					c.Rec.Evals(1)
					if i == 3 {
						if err == nil && len(got) >= 2 && got[0] == 'k' && got[1] == '=' {
							got = got[2:]
						} else {
							got = append([]byte("<existing bytes lost>"), got...)
						}
					}
					if err != nil || !bytes.Equal(got, ws) || p != len(content) {
						c.Rec.Violate(cs, "UnescapeStringContent(content of well-formed token)!=model", "UnescapeStringContent",
							fmt.Sprintf("val=%q p=%d err=<nil>", ws, len(content)), fmt.Sprintf("content=%q val=%q p=%d err=%s", content, got, p, errStr(err)))
					}
				}
			})
		}
		if c.Rec.WantSample() && c.Rec.R.Cases%7001 == 1 {
			g, p, err := rjson.ReadStringBytes(d, nil)
			c.Rec.Sample(map[string]interface{}{"input": h.Quote(d), "how": cs.Describe(), "model": exp, "rjson_ReadStringBytes": fmt.Sprintf("val=%q p=%d err=%s", g, p, errStr(err))})
		}
	}
	if c.Replay != nil {
		check(&h.Case{Family: c.Replay.Family, Desc: c.Replay.Desc, Input: c.Replay.Input()})
		return
	}
	sink := func(cs *h.Case) {
		if !c.Mine(cs.Input) {
			return
		}
		c.Rec.R.Cases++
		c.Rec.R.Counters["family_"+cs.Family]++
		c.Mark("C06 "+cs.Family, cs.Input)
		check(cs)
	}
	workload.W7Units(sink)
	if c.Thorough() {
		workload.W7Surrogates(1, sink)
		workload.W7Generated(2000000, c.Seed, sink)
	} else {
		workload.W7Surrogates(16, sink)
		workload.W7Generated(150000, c.Seed, sink)
	}
	workload.W1R(sink)
	workload.W1Words(sink)
	workload.W7Templates(sink)
	workload.W7Positions(72, sink)
	workload.W7Triples(sink)
	workload.W7Adjacent(workload.W7AdjAligns, workload.W7AdjTails, sink)
	workload.W7LongPositions(sink)
	workload.W5([]int{3000, 70000}, sink) // long tokens: size thresholds of scratch handling
	workload.W2T(false, func(cs *h.Case) {
		if len(cs.Input) > 0 && cs.Input[0] == '"' {
			sink(cs)
		}
	})
	workload.W7Runs(sink)
	workload.W1Len(func(cs *h.Case) {
		if cs.P[2] == 0 {
			sink(cs)
		}
	})
	// string seeds of W1 in top-level position, every byte everywhere
	workload.W1(c.Thorough(), func(cs *h.Case) {
		if cs.P[0] < workload.TopLevelSeeds() {
			sink(cs)
		}
	})
	workload.W5([]int{1000, 70000}, func(cs *h.Case) {
		if len(cs.Input) > 0 && cs.Input[0] == '"' {
			sink(cs)
		}
	})
}

func hasHighOrControl(d []byte) bool {
	for _, b := range d {
		if b >= 0x80 || b < 0x20 {
			return true
		}
	}
	return false
}
