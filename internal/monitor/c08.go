package monitor

import (
	"errors"
	"fmt"

	"github.com/willabides/rjson"

	h "verif/internal/harness"
	"verif/internal/refmodel"
	"verif/internal/workload"
)

// composer is a decoder written only against rjson's public API in the documented style:
// peek the token type, then read or skip the value with a typed reader, a skip function or
// a nested handler traversal, always returning the offset that call reported.
type composer struct {
	r          *workload.Rand
	readAll    bool // read every member with validating readers (no skipping)
	validating bool // may skip, but only in validating ways: SkipValue (nil or shared buffer), return 0, nested handlers
	buf        *rjson.Buffer
	skipBuf    *rjson.Buffer // a long-lived Buffer used only for skipping, kept across documents (it has seen hostile ones)
	keyBuf     *[]byte       // a long-lived scratch for field names, the `buf, _, err = Unescape(name, buf[:0])` idiom
	strBuf     []byte
	arena      []byte // every string value appended here when the decoder works arena style
	used       map[string]int
	maxDepth   int
}

type skipped struct{}

var errUnexpectedToken = errors.New("composer: unexpected token")

func (cp *composer) use(s string) { cp.used[s]++ }

// value decodes or skips the value at the front of data; inHandler allows "return 0".
func (cp *composer) value(data []byte, depth int, inHandler bool) (val interface{}, p int, err error) {
	if depth > cp.maxDepth {
		cp.maxDepth = depth
	}
	tt, p0, err := rjson.NextTokenType(data)
	if err != nil {
		return nil, p0, err
	}
	p0-- // offset of the token itself
	rest := data[p0:]
	if !cp.readAll {
		choice := cp.r.Intn(8)
		if cp.validating && choice == 1 {
			choice = 0 // SkipValueFast does not validate
		}
		switch choice {
		case 0:
			cp.use("SkipValue")
			b := cp.buf
			if cp.skipBuf != nil && cp.r.Intn(2) == 0 {
				b = cp.skipBuf
			}
			pp, e := rjson.SkipValue(rest, b)
			return skipped{}, p0 + pp, e
		case 1:
			cp.use("SkipValueFast")
			pp, e := rjson.SkipValueFast(rest, cp.buf)
			return skipped{}, p0 + pp, e
		case 2:
			if inHandler {
				cp.use("return 0")
				return skipped{}, 0, nil
			}
		case 3:
			// skip from before the whitespace: offsets are relative to what was passed
			cp.use("SkipValue(with leading whitespace)")
			pp, e := rjson.SkipValue(data, nil)
			return skipped{}, pp, e
		}
	}
	switch tt {
	case rjson.NullType:
		switch cp.r.Intn(6) {
		case 3:
			// a nullable integer field with a preset default (seeded change C08r7-m1: DecodeInt writes
			// the reader's zero before it falls back to null)
			cp.use("DecodeInt(null)")
			v := 3
			pp, e := rjson.DecodeInt(rest, &v)
			if e == nil && v != 3 {
				return nil, p0 + pp, errors.New("composer: DecodeInt modified target on null")
			}
			return nil, p0 + pp, e
		case 4:
			cp.use("DecodeInt64/DecodeUint32(null)")
			v, u := int64(-7), uint32(9)
			pp, e := rjson.DecodeInt64(rest, &v)
			_, e2 := rjson.DecodeUint32(rest, &u)
			if e == nil && (v != -7 || e2 != nil || u != 9) {
				return nil, p0 + pp, errors.New("composer: DecodeInt64/DecodeUint32 modified target on null")
			}
			return nil, p0 + pp, e
		case 5:
			cp.use("DecodeBool/DecodeUint(null)")
			b, u := true, uint(5)
			pp, e := rjson.DecodeBool(data, &b)
			_, e2 := rjson.DecodeUint(data, &u)
			if e == nil && (!b || e2 != nil || u != 5) {
				return nil, pp, errors.New("composer: DecodeBool/DecodeUint modified target on null")
			}
			return nil, pp, e
		}
		switch cp.r.Intn(3) {
		case 0:
			cp.use("ReadNull")
			pp, e := rjson.ReadNull(rest)
			return nil, p0 + pp, e
		case 1:
			cp.use("DecodeString(null)")
			s := "untouched"
			pp, e := rjson.DecodeString(rest, &s, nil)
			if e == nil && s != "untouched" {
				return nil, p0 + pp, errors.New("composer: DecodeString modified target on null")
			}
			return nil, p0 + pp, e
		default:
			cp.use("DecodeFloat64(null)")
			f := 1.5
			pp, e := rjson.DecodeFloat64(data, &f) // with leading whitespace
			if e == nil && f != 1.5 {
				return nil, pp, errors.New("composer: DecodeFloat64 modified target on null")
			}
			return nil, pp, e
		}
	case rjson.StringType:
		switch cp.r.Intn(4) {
		case 0:
			cp.use("ReadString(nil)")
			s, pp, e := rjson.ReadString(rest, nil)
			return s, p0 + pp, e
		case 1:
			cp.use("ReadString(buf)")
			s, pp, e := rjson.ReadString(data, &cp.strBuf)
			return s, pp, e
		case 2:
			if cp.r.Intn(2) == 0 {
				// arena style: every string of the document is APPENDED to one destination and the
				// decoder keeps spans (seeded change C08r8-m2: the shared slow path started from
				// buf[:0], which is right for ReadString's scratch and wrong for the append contract)
				cp.use("ReadStringBytes(appending to an arena)")
				start := len(cp.arena)
				b, pp, e := rjson.ReadStringBytes(rest, cp.arena)
				if e != nil {
					return nil, p0 + pp, e
				}
				if len(b) < start {
					return nil, p0 + pp, errors.New("composer: ReadStringBytes returned fewer bytes than the destination held")
				}
				cp.arena = b
				return string(b[start:]), p0 + pp, nil
			}
			cp.use("ReadStringBytes")
			var b []byte
			b, pp, e := rjson.ReadStringBytes(rest, cp.strBuf[:0])
			cp.strBuf = b
			return string(b), p0 + pp, e
		default:
			cp.use("DecodeString")
			var s string
			pp, e := rjson.DecodeString(rest, &s, &cp.strBuf)
			return s, p0 + pp, e
		}
	case rjson.NumberType:
		switch cp.r.Intn(4) {
		case 0:
			// integer first, float as the fallback (a common style for ids and counters); the two
			// readers must agree on where the number ends and, converted, on its value
			cp.use("ReadInt64-then-ReadFloat64")
			if i, pp, e := rjson.ReadInt64(rest); e == nil && i != 0 { // zero goes to the float reader: an integer cannot carry the sign of -0
				return float64(i), p0 + pp, nil
			}
			f, pp, e := rjson.ReadFloat64(rest)
			return f, p0 + pp, e
		case 1:
			cp.use("ReadUint64-then-ReadFloat64")
			if u, pp, e := rjson.ReadUint64(rest); e == nil && u != 0 {
				return float64(u), p0 + pp, nil
			}
			f, pp, e := rjson.ReadFloat64(rest)
			return f, p0 + pp, e
		}
		if cp.r.Intn(2) == 0 {
			cp.use("ReadFloat64")
			f, pp, e := rjson.ReadFloat64(rest)
			return f, p0 + pp, e
		}
		cp.use("DecodeFloat64")
		var f float64
		pp, e := rjson.DecodeFloat64(data, &f)
		return f, pp, e
	case rjson.TrueType, rjson.FalseType:
		if cp.r.Intn(2) == 0 {
			cp.use("ReadBool")
			b, pp, e := rjson.ReadBool(rest)
			return b, p0 + pp, e
		}
		cp.use("DecodeBool")
		var b bool
		pp, e := rjson.DecodeBool(rest, &b)
		return b, p0 + pp, e
	case rjson.ArrayStartType:
		cp.use("HandleArrayValues")
		out := []interface{}{}
		var buf *rjson.Buffer
		if cp.r.Intn(2) == 0 {
			buf = cp.buf // re-entrant sharing of the enclosing call's buffer is allowed (C14)
		}
		pp, e := rjson.HandleArrayValues(rest, rjson.ArrayValueHandlerFunc(func(d []byte) (int, error) {
			v, q, e := cp.value(d, depth+1, true)
			if e != nil {
				return q, e
			}
			out = append(out, v)
			return q, nil
		}), buf)
		return out, p0 + pp, e
	case rjson.ObjectStartType:
		cp.use("HandleObjectValues")
		out := map[string]interface{}{}
		var buf *rjson.Buffer
		if cp.r.Intn(2) == 0 {
			buf = cp.buf
		}
		pp, e := rjson.HandleObjectValues(rest, rjson.ObjectValueHandlerFunc(func(k, d []byte) (int, error) {
			var key []byte
			var ke error
			if cp.keyBuf != nil {
				*cp.keyBuf, _, ke = rjson.UnescapeStringContent(k, (*cp.keyBuf)[:0])
				key = *cp.keyBuf
			} else {
				key, _, ke = rjson.UnescapeStringContent(k, nil)
			}
			if ke != nil {
				return 0, ke
			}
			ks := string(key)
			v, q, e := cp.value(d, depth+1, true)
			if e != nil {
				return q, e
			}
			out[ks] = v
			return q, nil
		}), buf)
		return out, p0 + pp, e
	}
	return nil, p0, errUnexpectedToken
}

// C08: offsets compose.
func RunC08(c *Ctx) {
	// long-lived decoder state, as a service that decodes many documents keeps it: a Buffer used only
	// for skipping, which has also been handed hostile documents (seeded change C08r6-m1: depth
	// measured by the length of the reused stack), and one scratch for field names (seeded change
	// C08r6-m2: UnescapeStringContent returning its input, so that the scratch ends up pointing
	// into an earlier document)
	var skipLong rjson.Buffer
	var keyLong []byte
	var directLong rjson.ValueReader
	overDeep := workload.BuildNest([]int{0, 2}, 10001, "0", 10001)
	c.RunDocs([]string{"W3", "W1", "W4", "W2small", "W2T", "W1R"}, func(cs *h.Case) {
		if cs.Deep {
			c.Rec.C("skipped_nesting_beyond_10000")
			return
		}
		d := cs.Input
		if c.Rec.R.Cases%2048 == 1 {
			rjson.SkipValue(overDeep, &skipLong)
			rjson.SkipValue(overDeep[:len(overDeep)/3], &skipLong)
			c.Rec.C("hostile_documents_shown_to_the_long_lived_skip_buffer")
		}
		model := c.Parse(cs)
		var want interface{}
		var wp int
		var werr error
		if c.Guarded(cs, "ReadValue", func() { want, wp, werr = rjson.ReadValue(d) }) {
			return
		}
		c.Rec.Evals(1)
		// "direct decoding" is also what a long-lived ValueReader does, through whichever of its three entry
		// points fits the document, in either order: all of them must agree with the package-level function,
		// or the composition decoders would match one and contradict another (seeded change C08r10-m2: a
		// pooled child reader keeps the depth it was created with, and the root's depth differs between
		// ReadValue and ReadArray / ReadObject - one level gained or lost at the nesting limit)
		if len(d) > 0 {
			fp := refmodel.SkipWS(d, 0)
			typed := 0
			if fp < len(d) && d[fp] == '[' {
				typed = 2
			} else if fp < len(d) && d[fp] == '{' {
				typed = 1
			}
			order := []int{0, typed}
			if c.Rec.R.Cases%2 == 1 {
				order = []int{typed, 0}
			}
			for _, fn := range order {
				var v interface{}
				var p int
				var err error
				if c.Guarded(cs, "ValueReader(long-lived)."+vrFnNames[fn], func() { v, p, err = vrCall(&directLong, fn, d) }) {
					return
				}
				c.Rec.Evals(1)
				c.Rec.C("direct_decodings_through_a_long_lived_reader")
				if (err == nil) != (werr == nil) || err == nil && (p != wp || !refmodel.EqTree(v, want)) {
					c.Rec.AddViolation(h.Violation{Property: c.Prop, Oracle: "direct decoding through a long-lived ValueReader disagrees with the package-level ReadValue", Entry: "ValueReader." + vrFnNames[fn], Family: cs.Family, Desc: cs.Describe(), InputB64: b64(d), InputQ: h.Quote(d),
						Expected: fmt.Sprintf("p=%d err=%s", wp, errStr(werr)), Observed: fmt.Sprintf("p=%d err=%s", p, errStr(err)), Seed: c.Seed, Tier: c.Tier})
				}
			}
		}
		nprog := 4
		if c.Thorough() {
			nprog = 10
		}
		if werr == nil {
			c.Rec.C("direct_decoding_succeeded")
			if _, isArr := want.([]interface{}); isArr {
				c.Rec.R.Nontrivial++
			} else if _, isObj := want.(map[string]interface{}); isObj {
				c.Rec.R.Nontrivial++
			}
		} else {
			c.Rec.C("direct_decoding_failed")
		}
		for prog := 0; prog < nprog; prog++ {
			var buf rjson.Buffer
			cp := &composer{r: workload.NewRand(c.Seed, h.Hash(d)+uint64(prog)*977), readAll: prog < 2, validating: prog >= 2 && prog%2 == 0, buf: &buf, used: map[string]int{}}
			if prog%2 == 1 {
				cp.buf = nil
			}
			if prog != 1 {
				cp.skipBuf, cp.keyBuf = &skipLong, &keyLong
			}
			var got interface{}
			var gp int
			var gerr error
			if c.Guarded(cs, "composition decoder", func() { got, gp, gerr = cp.value(d, 1, false) }) {
				break
			}
			c.Rec.Evals(1)
			c.Rec.C("composition_programs_run")
			for k, n := range cp.used {
				c.Rec.Count("api_calls_"+k, int64(n))
			}
			c.Rec.Max("max_composition_depth", int64(cp.maxDepth))
			script := fmt.Sprintf("program #%d readAll=%v validatingOnly=%v sharedBuffer=%v calls=%v", prog, cp.readAll, cp.validating, cp.buf != nil, cp.used)
			viol := func(oracle, exp, obs string) {
				c.Rec.AddViolation(h.Violation{Property: c.Prop, Oracle: oracle, Entry: "composition", Family: cs.Family, Desc: cs.Describe(), InputB64: b64(d), InputQ: h.Quote(d), Script: script, Expected: exp, Observed: obs, Seed: c.Seed, Tier: c.Tier})
			}
			if werr == nil {
				if gerr != nil {
					viol("composition decoder fails where direct decoding succeeds", fmt.Sprintf("p=%d", wp), fmt.Sprintf("p=%d err=%s", gp, errStr(gerr)))
				} else if gp != wp {
					viol("composition decoder ends at a different offset than direct decoding", fmt.Sprintf("p=%d", wp), fmt.Sprintf("p=%d", gp))
				} else if cp.readAll && !refmodel.EqTree(want, got) {
					viol("read-everything composition decoder reconstructs a different tree", show(want), show(got))
				}
			} else if cp.readAll && gerr == nil {
				viol("read-everything composition decoder succeeds where direct decoding fails", "error ("+werr.Error()+")", fmt.Sprintf("p=%d tree=%s", gp, show(got)))
			} else if cp.validating && gerr == nil && !model.OK {
				// SkipValue, 'return 0' and nested traversals all validate what they pass over: such a
				// decoder may only succeed where the first value is well-formed (it does not convert
				// numbers, so a float overflow, which makes direct decoding fail, is not demanded here)
				c.Rec.C("validating_mix_checked_on_malformed_input")
				viol("composition decoder using only validating readers/skippers succeeds on a malformed value", "error", fmt.Sprintf("p=%d", gp))
			}
			if cp.validating && !model.OK {
				c.Rec.C("validating_mix_runs_on_malformed_input")
			}
			if c.Rec.WantSample() && werr == nil && len(cp.used) >= 4 && c.Rec.R.Cases%1009 == 1 {
				c.Rec.Sample(map[string]interface{}{"input": h.Quote(d), "how": cs.Describe(), "program": script, "direct_p": wp, "composed_p": gp, "composed_err": errStr(gerr)})
			}
		}
	})
}
