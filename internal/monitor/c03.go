package monitor

import (
	"bytes"
	"encoding/json"
	"fmt"

	"github.com/willabides/rjson"

	h "verif/internal/harness"
	"verif/internal/refmodel"
)

func treeStats(c *Ctx, n *refmodel.Node, depth int) {
	c.Rec.C("nodes_" + n.Kind.String())
	c.Rec.Max("max_depth_seen", int64(depth))
	if n.Kind == refmodel.KObject {
		seen := map[string]bool{}
		for _, k := range n.Keys {
			if seen[string(k.Decoded)] {
				c.Rec.C("duplicate_keys")
			}
			seen[string(k.Decoded)] = true
			if k.RawEnd-k.RawStart != len(k.Decoded) || bytes.IndexByte(k.Decoded, '\\') >= 0 {
				c.Rec.C("escaped_keys")
			}
		}
	}
	if len(n.Elems) == 0 && (n.Kind == refmodel.KArray || n.Kind == refmodel.KObject) {
		c.Rec.C("empty_containers")
	}
	c.Rec.Max("max_width_seen", int64(len(n.Elems)))
	for _, e := range n.Elems {
		treeStats(c, e, depth+1)
	}
}

func show(v interface{}) string {
	s := fmt.Sprintf("%#v", v)
	if len(s) > 300 {
		s = s[:300] + "..."
	}
	return s
}

// C03: generic decoding == model tree (== encoding/json modulo invalid UTF-8).
func RunC03(c *Ctx) {
	var long rjson.ValueReader
	fams := []string{"W3", "W1", "W4", "W2small", "W2T", "W1R", "W5small", "W6docs"}
	c.RunDocs(fams, func(cs *h.Case) {
		d := cs.Input
		m := c.Parse(cs)
		var want interface{}
		wantOK := false
		if m.OK {
			want, wantOK = refmodel.Tree(m.Node, d)
			if m.Node.Kind == refmodel.KArray || m.Node.Kind == refmodel.KObject {
				c.Rec.R.Nontrivial++
			}
			if !wantOK {
				c.Rec.C("wellformed_but_number_overflows_float64")
			} else if c.Rec.R.Cases%16 == 0 {
				treeStats(c, m.Node, 1)
			}
		}
		var jval interface{}
		jok := false
		if wantOK {
			dec := json.NewDecoder(bytes.NewReader(d))
			if e := dec.Decode(&jval); e != nil {
				c.Rec.Inconsistent(cs, "json.Decode fails where model tree exists", "ok", e.Error())
			} else {
				jok = !refmodel.KeysCollide(m.Node)
				if jok && !refmodel.EqTree(refmodel.CompatTree(want), jval) {
					c.Rec.Inconsistent(cs, "ToValid(model tree) != json.Unmarshal", show(jval), show(want))
				}
			}
		}
		type rd struct {
			name string
			f    func([]byte) (interface{}, int, error)
			kind int // 0 any, 1 object only, 2 array only
		}
		var fresh rjson.ValueReader
		rds := []rd{
			{"ReadValue", rjson.ReadValue, 0},
			{"ValueReader(fresh).ReadValue", fresh.ReadValue, 0},
			{"ValueReader(reused).ReadValue", long.ReadValue, 0},
			{"ReadObject", func(b []byte) (interface{}, int, error) { v, p, e := rjson.ReadObject(b); return v, p, e }, 1},
			{"ReadArray", func(b []byte) (interface{}, int, error) { v, p, e := rjson.ReadArray(b); return v, p, e }, 2},
			{"ValueReader(reused).ReadObject", func(b []byte) (interface{}, int, error) { v, p, e := long.ReadObject(b); return v, p, e }, 1},
			{"ValueReader(reused).ReadArray", func(b []byte) (interface{}, int, error) { v, p, e := long.ReadArray(b); return v, p, e }, 2},
		}
		for _, r := range rds {
			r := r
			c.Guarded(cs, r.name, func() {
				got, p, err := r.f(d)
				c.Rec.Evals(1)
				exp := wantOK
				if r.kind == 1 {
					exp = wantOK && m.Node.Kind == refmodel.KObject
				} else if r.kind == 2 {
					exp = wantOK && m.Node.Kind == refmodel.KArray
				}
				if (err == nil) != exp {
					c.Rec.Violate(cs, r.name+" success!=model", r.name, fmt.Sprintf("ok=%v", exp), fmt.Sprintf("p=%d err=%s val=%s", p, errStr(err), show(got)))
					return
				}
				if !exp {
					c.Rec.C("expected_failures_observed")
					return
				}
				c.Rec.C("trees_compared")
				if p != m.Node.End {
					c.Rec.Violate(cs, r.name+" offset!=model", r.name, fmt.Sprintf("p=%d", m.Node.End), fmt.Sprintf("p=%d", p))
				}
				if c.Rec.R.Cases%2 == 0 {
					scribbleSpare(got) // the caller fills the spare capacity of its slices: nothing else may live there
				}
				if !refmodel.EqTree(want, got) {
					c.Rec.Violate(cs, r.name+" tree!=model", r.name, show(want), show(got))
				} else if jok && !refmodel.EqTree(refmodel.CompatTree(got), jval) {
					c.Rec.Violate(cs, r.name+" tree!=encoding/json", r.name, show(jval), show(got))
				}
				if r.kind == 0 && r.name == "ReadValue" && c.Rec.WantSample() && c.Rec.R.Cases%4999 == 1 {
					c.Rec.Sample(map[string]interface{}{"input": h.Quote(d), "how": cs.Describe(), "model_end": m.Node.End, "rjson_p": p, "rjson_tree": show(got)})
				}
				// now and then the caller modifies what it was given: later results must not notice
				// (seeded change C03r5-m2: one shared map behind every empty object)
				if c.Rec.R.Cases%8 == 0 {
					scribble(got, 0)
					c.Rec.C("results_modified_by_the_caller_afterwards")
				}
			})
		}
	})
}
