package monitor

import (
	"bytes"
	"context"
	"encoding/json"
	"errors"
	"fmt"
	"io"
	"io/fs"
	"math"
	"reflect"
	"strconv"
	"strings"

	"github.com/willabides/rjson"

	h "verif/internal/harness"
	"verif/internal/refmodel"
	"verif/internal/workload"
)

// callRec is one entry of the callback event log.
type callRec struct {
	Off     int    // absolute offset of data[0] in the document
	Aliased bool   // data is the tail of the document itself (same memory)
	Key     []byte // raw key bytes (objects)
	Ret     int
	Err     bool
}

// probe is the handler used as the monitor's probe: it logs every invocation and answers
// according to a program.
type probe struct {
	doc   []byte
	log   []callRec
	limit int // >0: stop logging after this many calls (megabyte inputs); ncalls still counts
	n     int
	// answer decides what to return for call number i on data (absolute offset off).
	answer func(i int, off int, data []byte) (int, error)
}

func (pr *probe) record(key, data []byte) (int, error) {
	off := len(pr.doc) - len(data)
	al := off >= 0 && off <= len(pr.doc) && (len(data) == 0 || &data[0] == &pr.doc[off])
	i := pr.n
	pr.n++
	if pr.limit > 0 && i >= pr.limit {
		return pr.answer(i, off, data)
	}
	pr.log = append(pr.log, callRec{Off: off, Aliased: al, Key: key})
	ret, err := pr.answer(i, off, data)
	pr.log[i].Ret = ret
	pr.log[i].Err = err != nil
	return ret, err
}

func (pr *probe) HandleArrayValue(data []byte) (int, error) { return pr.record(nil, data) }
func (pr *probe) HandleObjectValue(key, data []byte) (int, error) {
	if pr.limit > 0 && pr.n >= pr.limit {
		return pr.record(nil, data)
	}
	return pr.record(append([]byte(nil), key...), data)
}

var errDeclinedEOF = fmt.Errorf("member rejected by the handler: %w", io.EOF)

type errList []string

func (e errList) Error() string { return strings.Join(e, "; ") }

type sentinelErr struct{ id int }

func (e *sentinelErr) Error() string {
	if e == nil {
		return "handler sentinel error (typed nil)"
	}
	return fmt.Sprintf("handler sentinel error #%d", e.id)
}

// libraryErrors collects error VALUES that the library itself returns, obtained through its
// public API. A handler that delegates to SkipValue / a nested traversal / a reader and
// passes the error up returns exactly these values, and they must come back unchanged too
// (seeded change C09r2-m1 rewrote a handler error only when it was identical to the library's
// own "unexpected end of json").
func libraryErrors() []error {
	var out []error
	add := func(e error) {
		if e == nil {
			return
		}
		for _, x := range out {
			if x == e {
				return
			}
		}
		out = append(out, e)
	}
	_, e := rjson.SkipValue([]byte("[1,[2,3"), nil)
	add(e)
	_, e = rjson.SkipValue([]byte(`{"a":`), nil)
	add(e)
	_, e = rjson.SkipValue([]byte("x"), nil)
	add(e)
	_, e = rjson.SkipValue([]byte(""), nil)
	add(e)
	_, e = rjson.SkipValue(bytes.Repeat([]byte("["), 10002), nil)
	add(e)
	_, e = rjson.SkipValueFast([]byte("[1,"), nil)
	add(e)
	_, e = rjson.HandleArrayValues([]byte("x"), nopArrayHandler{}, nil)
	add(e)
	_, e = rjson.HandleArrayValues([]byte("[1,"), nopArrayHandler{}, nil)
	add(e)
	_, e = rjson.HandleArrayValues([]byte("[[1,"), nopArrayHandler{}, nil)
	add(e)
	_, e = rjson.HandleObjectValues([]byte("x"), nopObjectHandler{}, nil)
	add(e)
	_, e = rjson.HandleObjectValues([]byte(`{"a":{"b":`), nopObjectHandler{}, nil)
	add(e)
	_, e = rjson.HandleArrayValues([]byte(`["a"]`), rjson.ArrayValueHandlerFunc(func([]byte) (int, error) { return -1, nil }), nil)
	add(e)
	_, e = rjson.ReadNull([]byte("x"))
	add(e)
	_, _, e = rjson.ReadBool([]byte("x"))
	add(e)
	_, _, e = rjson.ReadFloat64([]byte("x"))
	add(e)
	_, _, e = rjson.ReadFloat64([]byte("1e999"))
	add(e)
	_, _, e = rjson.ReadInt64([]byte("x"))
	add(e)
	_, _, e = rjson.ReadUint64([]byte("-1"))
	add(e)
	_, _, e = rjson.ReadString([]byte("x"), nil)
	add(e)
	_, _, e = rjson.ReadString([]byte(`"abc`), nil)
	add(e)
	_, _, e = rjson.NextToken([]byte(""))
	add(e)
	_, _, e = rjson.NextToken([]byte("x"))
	add(e)
	_, _, e = rjson.ReadValue([]byte("[1,"))
	add(e)
	_, _, e = rjson.ReadObject([]byte("null"))
	add(e)
	_, _, e = rjson.ReadArray([]byte("null"))
	add(e)
	_, _, e = rjson.UnescapeStringContent([]byte(`a\x`), nil)
	add(e)
	var typedNil *sentinelErr
	out = append(out, typedNil) // a non-nil error interface holding a nil pointer
	// well-known error values of the standard library and WRAPPED errors: a library that gives
	// some error a meaning of its own (errors.Is(err, io.EOF) as "stop early", seeded change
	// C07r6-m1) must still hand every one of them back unchanged
	// errors whose dynamic type is a slice (go/scanner.ErrorList, validator error lists): not
	// hashable, not comparable with == to anything but themselves through the interface header
	// (seeded change C09r8-m1: the handler's error looked up in a map of the library's own errors)
	out = append(out, errList{"first problem", "second problem"})
	out = append(out, io.EOF, io.ErrUnexpectedEOF, context.Canceled, errors.New("EOF"),
		fmt.Errorf("handler: %w", io.EOF), fmt.Errorf("handler: %w", out[0]))
	// the structured errors a handler gets from the decoders it delegates to: a traversal that "improves"
	// one of them (adds the member name, shifts the offset) returns a different value (seeded change
	// C09r10-m2 did that to *json.UnmarshalTypeError in the object machine only)
	out = append(out,
		&json.UnmarshalTypeError{Value: "string", Type: reflect.TypeOf(0), Offset: 5, Struct: "T", Field: "forks"},
		&json.SyntaxError{Offset: 3},
		&json.InvalidUnmarshalError{Type: reflect.TypeOf(0)},
		&json.UnsupportedTypeError{Type: reflect.TypeOf(0)},
		&json.MarshalerError{Type: reflect.TypeOf(0), Err: io.EOF},
		&strconv.NumError{Func: "ParseInt", Num: "12x", Err: strconv.ErrSyntax},
		&fs.PathError{Op: "open", Path: "/nonexistent", Err: fs.ErrNotExist},
		json.Unmarshal([]byte(`{"a":"x"}`), &struct{ A int }{}),
		json.Unmarshal([]byte(`[1,`), new(interface{})),
		&offsetErr{Offset: 7, Field: "name", Msg: "wrong type"})
	return out
}

// memberEnds caches, per absolute offset, the model's end of the value starting there
// (relative to that offset), or -1 if no well-formed value starts there.
type memberEnds struct {
	doc []byte
	m   map[int]int
}

func (me *memberEnds) end(off int) int {
	if v, ok := me.m[off]; ok {
		return v
	}
	n, ok := refmodel.ParseValue(me.doc[off:])
	v := -1
	if ok {
		v = n.End
	}
	me.m[off] = v
	return v
}

func traverse(kind int, d []byte, pr *probe, buf *rjson.Buffer) (int, error) {
	if kind == 0 {
		return rjson.HandleArrayValues(d, pr, buf)
	}
	return rjson.HandleObjectValues(d, pr, buf)
}

var kindName = [...]string{"HandleArrayValues", "HandleObjectValues"}

func logString(log []callRec) string {
	var b bytes.Buffer
	for i, r := range log {
		if i > 12 {
			fmt.Fprintf(&b, " ...(%d calls)", len(log))
			break
		}
		fmt.Fprintf(&b, "{#%d off=%d key=%q ret=%d err=%v}", i, r.Off, r.Key, r.Ret, r.Err)
	}
	return b.String()
}

// C07: handlers see each member exactly once, in order; traversal still validates.
func RunC07(c *Ctx) {
	var long rjson.Buffer
	c.RunDocs([]string{"W1", "W3", "W4", "W2small", "W2T", "W1R", "W5small"}, func(cs *h.Case) {
		if cs.Deep {
			c.Rec.C("skipped_nesting_beyond_10000")
			return
		}
		d := cs.Input
		m := c.Parse(cs)
		me := &memberEnds{doc: d, m: map[int]int{}}
		var declined error = &sentinelErr{1}
		if c.Rec.R.Cases%2 == 0 {
			// the handler's own error is often a wrapped standard one (its reader hit the end of its data)
			declined = errDeclinedEOF
		}
		for kind := 0; kind < 2; kind++ {
			wantKind := refmodel.KArray
			if kind == 1 {
				wantKind = refmodel.KObject
			}
			expOK := m.OK && (m.Node.Kind == wantKind || m.Node.Kind == refmodel.KNull)
			// pass 0: all-decline, learn how many calls happen
			nmasks := 1
			ncalls := 0
			for mask := 0; mask < nmasks; mask++ {
				var maskBits uint64
				switch {
				case ncalls <= 8:
					maskBits = uint64(mask)
				case mask == 1:
					maskBits = ^uint64(0)
				default:
					maskBits = workload.NewRand(c.Seed, h.Hash(d)+uint64(mask)).Uint64()
				}
				pr := &probe{doc: d}
				skipWithShared := mask%3 == 2 // the handler finds the end with SkipValue on the traversal's own Buffer
				pr.answer = func(i, off int, data []byte) (int, error) {
					if maskBits>>(uint(i)%64)&1 == 0 {
						return 0, nil
					}
					if skipWithShared {
						c.Rec.C("exact_ends_found_with_SkipValue_on_the_shared_buffer")
						pe, serr := rjson.SkipValue(data, &long)
						if serr != nil {
							return 0, serr // the handler's own validation failed: propagate its error
						}
						return pe, nil
					}
					e := me.end(off)
					if e < 0 {
						return 0, declined // the handler's own validation failed: propagate its error
					}
					return e, nil
				}
				var p int
				var err error
				buf := &long
				if mask%3 == 1 {
					buf = nil
				}
				if c.Guarded(cs, kindName[kind], func() { p, err = traverse(kind, d, pr, buf) }) {
					break
				}
				c.Rec.Evals(1)
				c.Rec.Count("callbacks_observed", int64(len(pr.log)))
				c.Rec.C("programs_run")
				script := fmt.Sprintf("mask=%#x buffer=%v", maskBits, buf != nil)
				viol := func(oracle, exp, obs string) {
					v := h.Violation{Property: c.Prop, Oracle: oracle, Entry: kindName[kind], Family: cs.Family, Desc: cs.Describe(), InputB64: b64(d), InputQ: h.Quote(d), Script: script, Expected: exp, Observed: obs, Seed: c.Seed, Tier: c.Tier}
					c.Rec.AddViolation(v)
				}
				if (err == nil) != expOK {
					viol(kindName[kind]+" success != (first value is a well-formed "+wantKind.String()+" or null)", fmt.Sprintf("ok=%v", expOK), fmt.Sprintf("p=%d err=%s log=%s", p, errStr(err), logString(pr.log)))
				} else if expOK {
					c.Rec.C("successful_traversals_checked")
					n := m.Node
					if p != n.End {
						viol(kindName[kind]+" offset != end of value", fmt.Sprintf("p=%d", n.End), fmt.Sprintf("p=%d", p))
					}
					if len(pr.log) != len(n.Elems) {
						viol(kindName[kind]+" handler calls != members", fmt.Sprintf("%d calls", len(n.Elems)), fmt.Sprintf("%d calls: %s", len(pr.log), logString(pr.log)))
					} else {
						for i, r := range pr.log {
							el := n.Elems[i]
							c.Rec.C("members_" + el.Kind.String())
							if r.Off != el.Start || !r.Aliased {
								viol(kindName[kind]+" handler data does not start at the member's first byte", fmt.Sprintf("call %d at offset %d (tail of the document)", i, el.Start), fmt.Sprintf("offset %d aliased=%v: %s", r.Off, r.Aliased, logString(pr.log)))
								break
							}
							if kind == 1 {
								k := n.Keys[i]
								if !bytes.Equal(r.Key, d[k.RawStart:k.RawEnd]) {
									viol("HandleObjectValues field name != raw bytes between the key's quotes", fmt.Sprintf("call %d key %q", i, d[k.RawStart:k.RawEnd]), fmt.Sprintf("key %q", r.Key))
									break
								}
							}
						}
					}
				}
				if mask == 0 {
					ncalls = len(pr.log)
					if ncalls <= 8 {
						nmasks = 1 << uint(ncalls)
					} else {
						nmasks = 8
					}
					if ncalls > 0 {
						c.Rec.R.Nontrivial++ // counted per (document, traversal kind) with at least one callback
					}
					c.Rec.Max("max_members_in_one_traversal", int64(ncalls))
				}
				if c.Rec.WantSample() && len(pr.log) >= 2 && c.Rec.R.Cases%2003 == 1 && mask == nmasks-1 {
					c.Rec.Sample(map[string]interface{}{"input": h.Quote(d), "how": cs.Describe(), "entry": kindName[kind], "program": script, "p": p, "err": errStr(err), "callback_log": logString(pr.log)})
				}
			}
		}
	})
}

// ---------------------------------------------------------------- C09

var errorOffsets = func(exact, n int) []int {
	return []int{0, 1, -1, exact, n, n + 1, math.MaxInt, math.MaxInt - 1, math.MinInt, exact / 2, -n}
}

// C09: a handler error stops the traversal and is returned unchanged.
func RunC09(c *Ctx) {
	var long rjson.Buffer
	libErrs := libraryErrors()
	c.Rec.Max("max_library_error_values_used_as_handler_errors", int64(len(libErrs)))
	errCounter := 0
	if !c.Thorough() {
		// error propagation does not depend on the fine structure of malformed neighbours: a third
		// of the byte sweep (rotating with the seed) is enough in the quick tier
		c.Filter = func(cs *h.Case) bool { return cs.Family != "W1" || (cs.P[0]+int(c.Seed))%3 == 0 }
	}
	c.RunDocs([]string{"W3", "W1", "W4", "W5small"}, func(cs *h.Case) {
		d := cs.Input
		me := &memberEnds{doc: d, m: map[int]int{}}
		for kind := 0; kind < 2; kind++ {
			// learn the number of calls with an all-exact handler (all members reached when well-formed)
			pr0 := &probe{doc: d}
			pr0.answer = func(i, off int, data []byte) (int, error) {
				if e := me.end(off); e >= 0 {
					return e, nil
				}
				return 0, nil
			}
			if c.Guarded(cs, kindName[kind], func() { traverse(kind, d, pr0, &long) }) {
				continue
			}
			c.Rec.Evals(1)
			ncalls := len(pr0.log)
			if ncalls == 0 {
				continue
			}
			c.Rec.R.Nontrivial++
			positions := make([]int, 0, 8)
			if ncalls <= 8 {
				for k := 0; k < ncalls; k++ {
					positions = append(positions, k)
				}
			} else {
				r := workload.NewRand(c.Seed, h.Hash(d))
				positions = append(positions, 0, ncalls-1, ncalls/2, r.Intn(ncalls), r.Intn(ncalls))
			}
			for _, k := range positions {
				exact := 0
				if e := me.end(pr0.log[k].Off); e > 0 {
					exact = e
				}
				offs := errorOffsets(exact, len(d)-pr0.log[k].Off)
				if !c.Thorough() && ncalls > 3 {
					// rotate through the offsets instead of trying all for wide documents
					r := workload.NewRand(c.Seed, h.Hash(d)+uint64(k))
					offs = []int{offs[r.Intn(len(offs))], offs[r.Intn(len(offs))], offs[r.Intn(len(offs))]}
				}
				for _, off := range offs {
					// the error the handler returns: a fresh sentinel most of the time, and in rotation one
					// of the library's own error values (or a typed-nil error)
					var sentinel error = &sentinelErr{id: k}
					errCounter++
					if errCounter%3 == 0 {
						sentinel = libErrs[(errCounter/3)%len(libErrs)]
						c.Rec.C("handler_returned_a_library_error_value")
					}
					pr := &probe{doc: d}
					// every fourth program: the handler also USES the traversal's own Buffer (SkipValue on
					// its member, the documented re-entrant sharing) before it answers, the failing call
					// included (seeded change C09r6-m1: the handler's error lost when the nested call had
					// grown the shared stack beyond the outer traversal's)
					var shared *rjson.Buffer
					if k%2 == 0 && errCounter%4 == 1 {
						shared = &long
						c.Rec.C("programs_whose_handler_reenters_with_the_traversals_buffer")
					}
					pr.answer = func(i, o int, data []byte) (int, error) {
						if shared != nil {
							rjson.SkipValue(data, shared)
						}
						if i == k {
							return off, sentinel
						}
						// earlier calls alternate between declining and skipping exactly
						if i%2 == 0 {
							return 0, nil
						}
						if e := me.end(o); e >= 0 {
							return e, nil
						}
						return 0, nil
					}
					var p int
					var err error
					buf := &long
					if k%2 == 1 {
						buf = nil
					}
					// now and then the same document and Buffer go through another function first, the way a
					// program validates (or skips, or walks) a message before it walks it (seeded change
					// C09r10-m1: Valid remembers the slice it accepted in the Buffer, and the next traversal of
					// that very slice with that Buffer swallows a handler error that comes with offset 0)
					if buf != nil && errCounter%5 >= 2 {
						switch errCounter % 5 {
						case 2:
							rjson.Valid(d, buf)
						case 3:
							rjson.SkipValue(d, buf)
						case 4:
							traverse(kind, d, &probe{doc: d, answer: func(i, o int, data []byte) (int, error) { return 0, nil }}, buf)
						}
						c.Rec.C("traversals_after_another_call_on_the_same_document_and_buffer")
					}
					textBefore := errStr(sentinel)
					if c.Guarded(cs, kindName[kind], func() { p, err = traverse(kind, d, pr, buf) }) {
						break
					}
					if errStr(sentinel) != textBefore {
						c.Rec.AddViolation(h.Violation{Property: c.Prop, Oracle: kindName[kind] + " modified the handler's error value", Entry: kindName[kind], Family: cs.Family, Desc: cs.Describe(), InputB64: b64(d), InputQ: h.Quote(d), Script: fmt.Sprintf("fail at call %d with offset %d and error %q (%T)", k, off, textBefore, sentinel), Expected: textBefore, Observed: errStr(sentinel), Seed: c.Seed, Tier: c.Tier})
					}
					c.Rec.Evals(1)
					if len(pr.log) <= k {
						// the traversal ended before call k (earlier member malformed under this program)
						c.Rec.C("error_call_not_reached")
						continue
					}
					c.Rec.C("error_returns_observed")
					c.Rec.C("failing_member_" + memberKindAt(d, pr.log[k].Off))
					script := fmt.Sprintf("fail at call %d with offset %d and error %q (%T)", k, off, errStr(sentinel), sentinel)
					viol := func(oracle, exp, obs string) {
						c.Rec.AddViolation(h.Violation{Property: c.Prop, Oracle: oracle, Entry: kindName[kind], Family: cs.Family, Desc: cs.Describe(), InputB64: b64(d), InputQ: h.Quote(d), Script: script, Expected: exp, Observed: obs, Seed: c.Seed, Tier: c.Tier})
					}
					if !sameError(err, sentinel) {
						viol(kindName[kind]+" does not return the handler's error value unchanged", fmt.Sprintf("the handler's own error %q (%T)", errStr(sentinel), sentinel), fmt.Sprintf("p=%d err=%s (%T)", p, errStr(err), err))
					}
					if len(pr.log) != k+1 {
						viol(kindName[kind]+" calls the handler again after it returned an error", fmt.Sprintf("%d calls", k+1), fmt.Sprintf("%d calls: %s", len(pr.log), logString(pr.log)))
					}
					if c.Rec.WantSample() && c.Rec.R.Cases%3001 == 1 && k > 0 {
						c.Rec.Sample(map[string]interface{}{"input": h.Quote(d), "how": cs.Describe(), "entry": kindName[kind], "program": script, "handler_error": errStr(sentinel), "returned_error_is_identical": sameError(err, sentinel), "calls": len(pr.log)})
					}
				}
			}
		}
	})
}

// offsetErr looks like the position-carrying errors of decoding libraries (exported Offset and Field).
type offsetErr struct {
	Offset int64
	Field  string
	Msg    string
}

func (e *offsetErr) Error() string { return fmt.Sprintf("%s at %d (%s)", e.Msg, e.Offset, e.Field) }

// sameError is identity of error values that also works for uncomparable dynamic types.
func sameError(a, b error) bool {
	la, oka := a.(errList)
	lb, okb := b.(errList)
	if oka || okb {
		return oka && okb && len(la) == len(lb) && (len(la) == 0 || &la[0] == &lb[0])
	}
	return a == b
}

func memberKindAt(d []byte, off int) string {
	if off < 0 || off >= len(d) {
		return "none"
	}
	switch b := d[off]; {
	case b == '"':
		return "string"
	case b == '[':
		return "array"
	case b == '{':
		return "object"
	case b == 't' || b == 'f':
		return "bool"
	case b == 'n':
		return "null"
	case b == '-' || (b >= '0' && b <= '9'):
		return "number"
	}
	return "other"
}
