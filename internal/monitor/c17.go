package monitor

import (
	"bytes"
	"encoding/json"
	"fmt"
	"sync"
	"sync/atomic"
	"unicode/utf8"

	"github.com/willabides/rjson"

	h "verif/internal/harness"
	"verif/internal/refmodel"
	"verif/internal/workload"
)

func checkCompatString(c *Ctx, cs *h.Case, b []byte) {
	s := string(b)
	want := refmodel.ToValid(b)
	c.Guarded(cs, "StdLibCompatibleString", func() {
		got := rjson.StdLibCompatibleString(s)
		c.Rec.Evals(1)
		if got != want {
			c.Rec.Violate(cs, "StdLibCompatibleString != per-byte U+FFFD replacement", "StdLibCompatibleString", fmt.Sprintf("%q", want), fmt.Sprintf("%q", got))
			return
		}
		if utf8.Valid(b) {
			c.Rec.C("valid_utf8_identity_checked")
			if got != s {
				c.Rec.Violate(cs, "StdLibCompatibleString is not the identity on valid UTF-8", "StdLibCompatibleString", fmt.Sprintf("%q", s), fmt.Sprintf("%q", got))
			}
		} else {
			c.Rec.C("invalid_utf8_replaced")
		}
		again := rjson.StdLibCompatibleString(got)
		c.Rec.Evals(1)
		if again != got {
			c.Rec.Violate(cs, "StdLibCompatibleString is not idempotent", "StdLibCompatibleString", fmt.Sprintf("%q", got), fmt.Sprintf("%q", again))
		}
	})
	c.Guarded(cs, "StdLibCompatibleStringBytes", func() {
		dsts := [][]byte{nil, make([]byte, 0, 1), append(make([]byte, 0, 4), 'p', 'q'), append(make([]byte, 0, 64), "prefix"...)}
		if len(b) > 0 && b[0] >= 0x80 && b[0] <= 0xbf {
			// the source begins with continuation bytes: destinations that END in an incomplete sequence
			// which those bytes would complete - the existing contents are not the function's to
			// re-interpret (seeded change C17r7-m1: utf8.Valid over destination AND appended bytes)
			for _, tail := range []string{"caf\xc3", "\xe2\x82", "x\xe2", "\xf0\x9f\x98", "\xf0\x9f", "y\xf0"} {
				dsts = append(dsts, append(make([]byte, 0, 8), tail...), append(make([]byte, 0, 64), tail...))
			}
			c.Rec.C("sources_beginning_with_continuation_bytes_appended_to_incomplete_tails")
		}
		for _, dst := range dsts {
			prefix := append([]byte(nil), dst...)
			arg := append([]byte(nil), b...)
			got := rjson.StdLibCompatibleStringBytes(arg, dst)
			c.Rec.Evals(1)
			if !bytes.Equal(got, append(prefix, want...)) {
				c.Rec.Violate(cs, "StdLibCompatibleStringBytes != dst ++ replacement", "StdLibCompatibleStringBytes", fmt.Sprintf("%q ++ %q", dst, want), fmt.Sprintf("%q", got))
			}
			if !bytes.Equal(arg, b) {
				c.Rec.Violate(cs, "StdLibCompatibleStringBytes modified its argument", "StdLibCompatibleStringBytes", fmt.Sprintf("%q", b), fmt.Sprintf("%q", arg))
			}
			// the result must live in the destination (or in fresh memory), never in the source: a caller
			// that keeps results while re-using the source buffer would see them change (seeded change C17r3-m1)
			if h.Overlaps(got, arg) {
				c.Rec.Violate(cs, "StdLibCompatibleStringBytes returned a slice that shares memory with its source argument", "StdLibCompatibleStringBytes", "result in the destination's or in fresh memory", fmt.Sprintf("len(dst)=%d cap(dst)=%d", len(dst), cap(dst)))
			}
		}
	})
}

// randTree builds a value tree with invalid UTF-8 in strings and keys at every depth.
func randTree(r *workload.Rand, depth int) interface{} {
	k := r.Intn(8)
	if depth > 4 && k >= 5 {
		k = r.Intn(5)
	}
	switch k {
	case 0:
		return nil
	case 1:
		return r.Intn(2) == 0
	case 2:
		return float64(r.Intn(1000)) / 8
	case 3, 4:
		return randStr(r)
	case 5, 6:
		n := r.Intn(5)
		out := make([]interface{}, n)
		for i := range out {
			out[i] = randTree(r, depth+1)
		}
		return out
	default:
		n := r.Intn(5)
		out := make(map[string]interface{}, n)
		for i := 0; i < n; i++ {
			out[randStr(r)] = randTree(r, depth+1)
		}
		return out
	}
}

func randStr(r *workload.Rand) string {
	n := r.Intn(8)
	b := make([]byte, 0, n*2)
	for i := 0; i < n; i++ {
		switch r.Intn(5) {
		case 0:
			b = append(b, byte(0x80+r.Intn(0x80)))
		case 1:
			b = utf8.AppendRune(b, rune(r.Intn(0x10ffff)))
		case 2:
			b = append(b, 0xed, byte(0xa0+r.Intn(0x20)), byte(0x80+r.Intn(0x40))) // encoded surrogate
		default:
			b = append(b, byte(0x20+r.Intn(0x5f)))
		}
	}
	return string(b)
}

func treeKeysCollide(v interface{}) bool {
	switch t := v.(type) {
	case []interface{}:
		for _, x := range t {
			if treeKeysCollide(x) {
				return true
			}
		}
	case map[string]interface{}:
		seen := map[string]bool{}
		for k, x := range t {
			kk := refmodel.ToValid([]byte(k))
			if seen[kk] {
				return true
			}
			seen[kk] = true
			if treeKeysCollide(x) {
				return true
			}
		}
	}
	return false
}

// C17: StdLibCompatible helpers reproduce encoding/json's invalid-UTF-8 handling.
func RunC17(c *Ctx) {
	if c.Replay != nil {
		cs := &h.Case{Family: c.Replay.Family, Desc: c.Replay.Desc, Input: c.Replay.Input()}
		checkCompatString(c, cs, cs.Input)
		checkCompatDoc(c, cs)
		return
	}
	// exhaustive: all 1- and 2-byte strings, all 3-byte strings with a lead byte >= 0x80
	cs := &h.Case{Family: "exhaustive"}
	cs.DescFn = func(cs *h.Case) string { return fmt.Sprintf("byte string % x", cs.Input) }
	var buf [3]byte
	run := func(b []byte) {
		if c.NShards > 1 && int(h.Hash(b)%uint64(c.NShards)) != c.Shard {
			return
		}
		c.Rec.R.Cases++
		if !utf8.Valid(b) {
			c.Rec.R.Nontrivial++
		}
		cs.Input = b
		cs.Desc = ""
		if c.Rec.R.Cases%4096 == 0 {
			c.Mark("C17 exhaustive", b)
		}
		checkCompatString(c, cs, b)
		if c.Rec.WantSample() && c.Rec.R.Cases%200003 == 7 {
			c.Rec.Sample(map[string]interface{}{"bytes": fmt.Sprintf("% x", b), "StdLibCompatibleString": fmt.Sprintf("%q", rjson.StdLibCompatibleString(string(b))), "model": fmt.Sprintf("%q", refmodel.ToValid(b))})
		}
	}
	run(buf[:0])
	for a := 0; a < 256; a++ {
		buf[0] = byte(a)
		run(buf[:1])
		for b := 0; b < 256; b++ {
			buf[1] = byte(b)
			run(buf[:2])
			if a >= 0x80 {
				for e := 0; e < 256; e++ {
					buf[2] = byte(e)
					run(buf[:3])
				}
			}
		}
	}
	c.Rec.C("exhaustive_space_completed")
	// 4-byte sequences around the UTF-8 boundaries and generated longer strings
	n := 300000
	if c.Thorough() {
		n = 6000000
	}
	gen := &h.Case{Family: "generated-strings"}
	for i := 0; i < n; i++ {
		if c.NShards > 1 && i%c.NShards != c.Shard {
			continue
		}
		r := workload.NewRand(c.Seed, uint64(i)+55000000)
		var b []byte
		if i%3 == 0 {
			b = []byte{byte(0xf0 + r.Intn(8)), byte(0x80 + r.Intn(0x40)), byte(0x70 + r.Intn(0x60)), byte(0x70 + r.Intn(0x60))}
			if r.Intn(2) == 0 {
				b = append([]byte("a"), b...)
			}
			if r.Intn(2) == 0 {
				b = append(b, 'z', 0xc3)
			}
		} else {
			b = []byte(randStr(r) + randStr(r) + randStr(r))
		}
		c.Rec.R.Cases++
		if !utf8.Valid(b) {
			c.Rec.R.Nontrivial++
		}
		gen.Input = b
		gen.Desc = fmt.Sprintf("generated string #%d", i)
		checkCompatString(c, gen, b)
	}
	// position sweep: one or two invalid bytes at every position of otherwise plain strings of
	// every length up to 72 (chunked fast paths are position sensitive; seeded change C17/m1)
	ps := &h.Case{Family: "position-sweep"}
	bad := []byte{0x80, 0xbf, 0xc0, 0xc3, 0xe2, 0xed, 0xf0, 0xf8, 0xff}
	fill := []byte("abcdefghijklmnopqrstuvwxyz0123456789ABCDEFGHIJKLMNOPQRSTUVWXYZ-_.,;:!?()[]{}")
	pcount := 0
	for L := 1; L <= 72; L++ {
		for pos := 0; pos < L; pos++ {
			for bi, bb := range bad {
				for second := -1; second < L; second += 1 + L/6 {
					pcount++
					if c.NShards > 1 && pcount%c.NShards != c.Shard {
						continue
					}
					b := append([]byte(nil), fill[:L]...)
					b[pos] = bb
					if second >= 0 && second != pos {
						b[second] = bad[(bi+3)%len(bad)]
					}
					c.Rec.R.Cases++
					c.Rec.R.Nontrivial++
					c.Rec.C("position_sweep_cases")
					ps.Input = b
					ps.Desc = fmt.Sprintf("length %d, byte 0x%02x at offset %d, second invalid byte at %d", L, bb, pos, second)
					checkCompatString(c, ps, b)
				}
			}
		}
	}
	// boundary code points of the UTF-8 encoding lengths and of the surrogate gap, valid, next to
	// an invalid byte (so that no valid-string fast path hides the conversion) and in pairs
	// (seeded change C17r8-m2: a hand-written AppendRune with 'r < utf8.MaxRune' loses U+10FFFF)
	bc := &h.Case{Family: "boundary-code-points"}
	bps := []rune{0x00, 0x7f, 0x80, 0x7ff, 0x800, 0xd7ff, 0xe000, 0xfffd, 0xfffe, 0xffff, 0x10000, 0x10ffff, 0x10fffe, 0xfdd0}
	bcount := 0
	for _, r1 := range bps {
		for _, r2 := range bps {
			for _, shape := range []string{"%s%s", "\xff%s%s", "%s\x80%s", "%s%s\xc3", "a%sb%s\xf4\x90\x80\x80"} {
				bcount++
				if c.NShards > 1 && bcount%c.NShards != c.Shard {
					continue
				}
				b := []byte(fmt.Sprintf(shape, string(r1), string(r2)))
				c.Rec.R.Cases++
				c.Rec.R.Nontrivial++
				c.Rec.C("boundary_code_point_cases")
				bc.Input = b
				bc.Desc = fmt.Sprintf("U+%04X and U+%04X in shape %q", r1, r2, shape)
				checkCompatString(c, bc, b)
			}
		}
	}
	// window straddle: long strings in which a valid multi-byte character lies across a multiple of
	// a power of two (fixed-size conversion windows must not split it), with and without an
	// invalid byte elsewhere (seeded change C17r5-m1: 512-byte windows behind a utf8.ValidString
	// fast path)
	ws := &h.Case{Family: "window-straddle"}
	runes := []string{"\u00e9", "\u20ac", "\U0001F600", "\uFFFD"}
	wcount := 0
	for _, B := range []int{8, 16, 32, 64, 128, 256, 512, 1024, 2048, 4096, 8192} {
		for mult := 1; mult <= 3; mult++ {
			for ri, rn := range runes {
				for j := 0; j <= len(rn); j++ {
					for inv := 0; inv < 4; inv++ {
						wcount++
						if c.NShards > 1 && wcount%c.NShards != c.Shard {
							continue
						}
						off := B*mult - j
						if off < 1 {
							continue
						}
						b := make([]byte, 0, B*mult+16)
						for len(b) < off {
							b = append(b, fill[len(b)%len(fill)])
						}
						b = append(b, rn...)
						b = append(b, "tail-end"...)
						switch inv {
						case 1:
							b[0] = 0xff
						case 2:
							b[len(b)-1] = 0xff
						case 3:
							b = append(b[:off+len(rn)], append([]byte{0x80}, b[off+len(rn):]...)...)
						}
						c.Rec.R.Cases++
						c.Rec.R.Nontrivial++
						c.Rec.C("window_straddle_cases")
						ws.Input = b
						ws.Desc = fmt.Sprintf("character #%d starting %d bytes before offset %d, invalid-byte placement %d", ri, j, B*mult, inv)
						checkCompatString(c, ws, b)
					}
				}
			}
		}
	}
	// value trees
	nt := 60000
	if c.Thorough() {
		nt = 1500000
	}
	tc := &h.Case{Family: "generated-trees"}
	for i := 0; i < nt; i++ {
		if c.NShards > 1 && i%c.NShards != c.Shard {
			continue
		}
		r := workload.NewRand(c.Seed, uint64(i)+66000000)
		arg := []interface{}{randTree(r, 0), randTree(r, 0)}
		marg := map[string]interface{}{randStr(r): randTree(r, 0), randStr(r): arg[0]}
		tc.Desc = fmt.Sprintf("generated tree #%d (seed %d)", i, c.Seed)
		tc.Input = []byte(fmt.Sprintf("tree#%d", i))
		c.Rec.R.Cases++
		c.Rec.R.Nontrivial++
		c.Guarded(tc, "StdLibCompatibleSlice/Map", func() {
			snapS := refmodel.CopyTree(arg)
			snapM := refmodel.CopyTree(marg)
			gotS := rjson.StdLibCompatibleSlice(arg)
			gotM := rjson.StdLibCompatibleMap(marg)
			c.Rec.Evals(2)
			c.Rec.C("trees_converted")
			if !refmodel.EqTree(arg, snapS) || !refmodel.EqTree(marg, snapM) {
				c.Rec.AddViolation(h.Violation{Property: c.Prop, Oracle: "StdLibCompatibleSlice/Map modified its argument", Entry: "StdLibCompatibleSlice", Family: tc.Family, Desc: tc.Desc, Script: fmt.Sprintf("tree=%d", i), Expected: show(snapS), Observed: show(arg), Seed: c.Seed, Tier: c.Tier})
			}
			if !treeKeysCollide(arg) && !refmodel.EqTree(gotS, refmodel.CompatTree(snapS)) {
				c.Rec.AddViolation(h.Violation{Property: c.Prop, Oracle: "StdLibCompatibleSlice != replacement applied to every string and key", Entry: "StdLibCompatibleSlice", Family: tc.Family, Desc: tc.Desc, Script: fmt.Sprintf("tree=%d", i), Expected: show(refmodel.CompatTree(snapS)), Observed: show(gotS), Seed: c.Seed, Tier: c.Tier})
			}
			if !treeKeysCollide(marg) && !refmodel.EqTree(gotM, refmodel.CompatTree(snapM)) {
				c.Rec.AddViolation(h.Violation{Property: c.Prop, Oracle: "StdLibCompatibleMap != replacement applied to every string and key", Entry: "StdLibCompatibleMap", Family: tc.Family, Desc: tc.Desc, Script: fmt.Sprintf("tree=%d", i), Expected: show(refmodel.CompatTree(snapM)), Observed: show(gotM), Seed: c.Seed, Tier: c.Tier})
			}
			// the caller appends to / fills the spare capacity of the slices it was given: they are its own, so
			// nothing else in the result may change (seeded change C17r10-m1 cut every short array of a result
			// from one block without limiting its capacity: append(res, x) overwrote the next array's element)
			scribbleSpare(gotS)
			scribbleSpare(gotM)
			c.Rec.C("results_whose_spare_capacity_was_overwritten")
			if !treeKeysCollide(arg) && !refmodel.EqTree(gotS, refmodel.CompatTree(snapS)) || !treeKeysCollide(marg) && !refmodel.EqTree(gotM, refmodel.CompatTree(snapM)) {
				c.Rec.AddViolation(h.Violation{Property: c.Prop, Oracle: "a StdLibCompatibleSlice/Map result changed when the caller wrote into the spare capacity of the slices it was given (arrays of the result share a backing array)", Entry: "StdLibCompatibleSlice", Family: tc.Family, Desc: tc.Desc, Script: fmt.Sprintf("tree=%d", i), Expected: show(refmodel.CompatTree(snapS)), Observed: show(gotS), Seed: c.Seed, Tier: c.Tier})
			}
			// the results must not share mutable containers with the argument
			scribble(gotS, 0)
			scribble(gotM, 0)
			if !refmodel.EqTree(arg, snapS) || !refmodel.EqTree(marg, snapM) {
				c.Rec.AddViolation(h.Violation{Property: c.Prop, Oracle: "modifying StdLibCompatibleSlice/Map's result changed the argument (shared containers)", Entry: "StdLibCompatibleSlice", Family: tc.Family, Desc: tc.Desc, Script: fmt.Sprintf("tree=%d", i), Expected: show(snapS), Observed: show(arg), Seed: c.Seed, Tier: c.Tier})
			}
		})
	}
	// sequences of long strings in one tree: converted lengths just below / at / above each power of two from
	// 256 to 131,072, first one then another of the same or a neighbouring size class, then a short one (seeded
	// change C17r10-m2: a per-call scratch whose contents are handed over as the result once they reach 16 KiB,
	// and still used as scratch for the next string when building them did not reallocate)
	{
		lc := &h.Case{Family: "long-string-sequences"}
		idx := 0
		for k := 8; k <= 17; k++ {
			for _, da := range []int{-2, -1, 0, 1} {
				for _, kb := range []int{k - 1, k, k + 1} {
					for _, db := range []int{-2, -1, 0, 1} {
						idx++
						if c.NShards > 1 && idx%c.NShards != c.Shard {
							continue
						}
						mk := func(conv int, fill byte, where int) string {
							raw := conv - 2 // one invalid byte becomes three
							b := bytes.Repeat([]byte{fill}, raw)
							b[[]int{0, raw / 2, raw - 1}[where%3]] = 0xff
							return string(b)
						}
						first, second, third := mk(1<<k+da, 'a', idx), mk(1<<kb+db, 'b', idx/3), "third\xff"
						lc.Desc = fmt.Sprintf("strings converting to %d, %d and 8 bytes in one tree", 1<<k+da, 1<<kb+db)
						lc.Input = []byte(lc.Desc)
						c.Rec.R.Cases++
						c.Rec.R.Nontrivial++
						c.Guarded(lc, "StdLibCompatibleSlice/Map (long strings)", func() {
							args := []interface{}{
								[]interface{}{first, second, third},
								[]interface{}{[]interface{}{first}, map[string]interface{}{"k": second}, []interface{}{third, second}},
								[]interface{}{map[string]interface{}{first: second}, third},
							}
							for ai, a := range args {
								arg := a.([]interface{})
								want := refmodel.CompatTree(arg)
								got := rjson.StdLibCompatibleSlice(arg)
								gotM := rjson.StdLibCompatibleMap(map[string]interface{}{"m": arg})
								c.Rec.Evals(2)
								c.Rec.C("long_string_sequences_converted")
								if !refmodel.EqTree(got, want) || !refmodel.EqTree(gotM, map[string]interface{}{"m": want}) {
									c.Rec.AddViolation(h.Violation{Property: c.Prop, Oracle: "StdLibCompatibleSlice/Map != replacement applied to every string and key (sequence of long strings in one tree)", Entry: "StdLibCompatibleSlice", Family: lc.Family, Desc: lc.Desc, Script: fmt.Sprintf("shape=%d", ai), Expected: "each string converted on its own", Observed: trunc(show(got)), Seed: c.Seed, Tier: c.Tier})
								}
							}
						})
					}
				}
			}
		}
	}
	// very deep trees (the helpers have no depth limit of their own, unlike the decoders): a slice
	// chain and a map chain of each depth with an invalid string / key at the bottom
	// (seeded change C17r4-m2 stopped converting below container 10,000)
	if c.Shard == 0 || c.NShards <= 1 {
		dc := &h.Case{Family: "deep-trees"}
		for _, depth := range []int{2, 300, 9999, 10000, 10001, 10002, 12000} {
			depth := depth
			dc.Desc = fmt.Sprintf("container chain of depth %d with invalid UTF-8 at the bottom", depth)
			dc.Input = []byte(dc.Desc)
			c.Rec.R.Cases++
			c.Rec.R.Nontrivial++
			c.Guarded(dc, "StdLibCompatibleSlice/Map (deep)", func() {
				var sl interface{} = "bad\xffstr"
				var mp interface{} = "bad\xffstr"
				for i := 0; i < depth; i++ {
					sl = []interface{}{sl}
					mp = map[string]interface{}{"k\xfe": mp}
				}
				gs := rjson.StdLibCompatibleSlice(sl.([]interface{}))
				gm := rjson.StdLibCompatibleMap(mp.(map[string]interface{}))
				c.Rec.Evals(2)
				c.Rec.C("deep_trees_converted")
				var x interface{} = gs
				for i := 0; i < depth; i++ {
					x = x.([]interface{})[0]
				}
				if x != refmodel.ToValid([]byte("bad\xffstr")) {
					c.Rec.AddViolation(h.Violation{Property: c.Prop, Oracle: "StdLibCompatibleSlice leaves a string unconverted at great depth", Entry: "StdLibCompatibleSlice", Family: dc.Family, Desc: dc.Desc, Script: fmt.Sprintf("depth=%d", depth), Expected: fmt.Sprintf("%q", refmodel.ToValid([]byte("bad\xffstr"))), Observed: fmt.Sprintf("%q", x), Seed: c.Seed, Tier: c.Tier})
				}
				var y interface{} = gm
				okKeys := true
				for i := 0; i < depth; i++ {
					m := y.(map[string]interface{})
					v, ok := m[refmodel.ToValid([]byte("k\xfe"))]
					if !ok {
						okKeys = false
						break
					}
					y = v
				}
				if !okKeys || y != refmodel.ToValid([]byte("bad\xffstr")) {
					c.Rec.AddViolation(h.Violation{Property: c.Prop, Oracle: "StdLibCompatibleMap leaves a key or string unconverted at great depth", Entry: "StdLibCompatibleMap", Family: dc.Family, Desc: dc.Desc, Script: fmt.Sprintf("depth=%d", depth), Expected: "every key and the innermost string converted", Observed: fmt.Sprintf("keys converted all the way down: %v, innermost %q", okKeys, y), Seed: c.Seed, Tier: c.Tier})
				}
			})
		}
	}
	// concurrent callers: the helpers are pure functions of their argument, also when many
	// goroutines convert different strings at once (seeded change C17r6-m1: a pooled rune scratch
	// read after it was put back). The race detector part of this lives in C18; here only results.
	if c.Shard == 1%max(c.NShards, 1) || c.NShards <= 1 {
		cc := &h.Case{Family: "concurrent-callers", Desc: "16 goroutines converting their own strings (8 to 6000 bytes, invalid bytes sprinkled in) 300 times each"}
		cc.Input = []byte(cc.Desc)
		c.Rec.R.Cases++
		c.Rec.R.Nontrivial++
		const G = 16
		ins := make([]string, G)
		wants := make([]string, G)
		for g := range ins {
			n := []int{8, 40, 300, 600, 1500, 4000, 6000, 64}[g%8]
			b := make([]byte, n)
			for i := range b {
				b[i] = byte('a' + (i+g)%26)
				if (i+g)%11 == 0 {
					b[i] = byte(0x80 + (i*7+g)%0x80)
				}
			}
			ins[g] = string(b)
			wants[g] = refmodel.ToValid(b)
		}
		var bad int64
		var firstBad atomic.Value
		var wg sync.WaitGroup
		for g := 0; g < G; g++ {
			wg.Add(1)
			go func(g int) {
				defer wg.Done()
				defer func() {
					if r := recover(); r != nil {
						atomic.AddInt64(&bad, 1)
						firstBad.Store(fmt.Sprintf("goroutine %d panicked: %v", g, r))
					}
				}()
				for round := 0; round < 300; round++ {
					got := rjson.StdLibCompatibleString(ins[g])
					gb := rjson.StdLibCompatibleStringBytes([]byte(ins[g]), nil)
					gs := rjson.StdLibCompatibleSlice([]interface{}{ins[g]})
					if got != wants[g] || string(gb) != wants[g] || gs[0] != wants[g] {
						if atomic.AddInt64(&bad, 1) == 1 {
							firstBad.Store(fmt.Sprintf("goroutine %d round %d: got %s / %s / %s", g, round, h.Quote([]byte(got)), h.Quote(gb), show(gs[0])))
						}
					}
				}
			}(g)
		}
		wg.Wait()
		c.Rec.Evals(G * 300 * 3)
		c.Rec.Count("concurrent_conversions", G*300*3)
		if bad > 0 {
			fb, _ := firstBad.Load().(string)
			c.Rec.AddViolation(h.Violation{Property: c.Prop, Oracle: "a StdLibCompatible helper returns something else than the replacement of its own argument when other goroutines convert other strings at the same time", Entry: "StdLibCompatibleString", Family: cc.Family, Desc: cc.Desc, Script: "concurrent", Expected: "each result equals the model's replacement of that goroutine's own string", Observed: fmt.Sprintf("%d wrong results; first: %s", bad, fb), Seed: c.Seed, Tier: c.Tier})
		}
	}
	// decoded documents: helper(ReadValue(d)) == json.Unmarshal(d) when no keys collide
	c.RunDocs([]string{"W3small"}, func(cs *h.Case) { checkCompatDoc(c, cs) })
}

func checkCompatDoc(c *Ctx, cs *h.Case) {
	d := cs.Input
	n, ok := refmodel.ParseValue(d)
	if !ok || (n.Kind != refmodel.KArray && n.Kind != refmodel.KObject) || refmodel.KeysCollide(n) {
		return
	}
	c.Guarded(cs, "StdLibCompatible(ReadValue)", func() {
		v, _, err := rjson.ReadValue(d)
		c.Rec.Evals(1)
		if err != nil {
			return
		}
		var jv interface{}
		dec := json.NewDecoder(bytes.NewReader(d))
		if dec.Decode(&jv) != nil {
			return
		}
		var got interface{}
		switch t := v.(type) {
		case []interface{}:
			got = rjson.StdLibCompatibleSlice(t)
		case map[string]interface{}:
			got = rjson.StdLibCompatibleMap(t)
		}
		c.Rec.Evals(1)
		c.Rec.C("decoded_documents_compared_with_encoding_json")
		c.Rec.R.Nontrivial++
		if !refmodel.EqTree(got, jv) {
			c.Rec.Violate(cs, "StdLibCompatible(ReadValue(d)) != json.Unmarshal(d)", "StdLibCompatibleSlice/Map", show(jv), show(got))
		}
	})
}
