package monitor

import (
	"fmt"
	"math"
	"math/big"
	"strconv"
	"strings"

	"github.com/willabides/rjson"

	h "verif/internal/harness"
	"verif/internal/refmodel"
	"verif/internal/workload"
)

// bytes that cannot continue a JSON number
var floatFollowers = []string{"", " ", "\n", ",", "]", "}", ":", "\"", "x", "n", "\x00", "\xff", "\t", "[", "{", "t"}

const longTail = ", 4, 5, 6, 7, 8, 9, 10, 11, 12, 13, 14, 15, 16]"

func sigDigits(lit string) (n int, exp bool) {
	started := false
	for i := 0; i < len(lit); i++ {
		ch := lit[i]
		if ch == 'e' || ch == 'E' {
			return n, true
		}
		if ch >= '1' && ch <= '9' {
			started = true
		}
		if started && ch >= '0' && ch <= '9' {
			n++
		}
	}
	return n, false
}

// C04: float conversion is correctly rounded (== strconv.ParseFloat), with exact offsets.
func RunC04(c *Ctx) {
	// The W6 generators are expensive (exact big-number midpoints), so these families are
	// sharded by generator index (row / float / exponent) instead of by input hash; each
	// worker still skips literals it has already seen.
	mineIdx := func(i int) bool { return c.NShards <= 1 || i%c.NShards == c.Shard }
	local := func(cs *h.Case) {
		if !c.Rec.FirstSight(h.Hash(cs.Input)) {
			return
		}
		c.Rec.R.Cases++
		c.Rec.R.Counters["family_"+cs.Family]++
		c.Mark("C04 "+cs.Family, cs.Input)
		checkFloatLiteral(c, cs)
	}
	hashed := func(cs *h.Case) {
		if !c.Mine(cs.Input) {
			return
		}
		c.Rec.R.Cases++
		c.Rec.R.Counters["family_"+cs.Family]++
		c.Mark("C04 "+cs.Family, cs.Input)
		checkFloatLiteral(c, cs)
	}
	if c.Replay != nil {
		cs := &h.Case{Family: c.Replay.Family, Desc: c.Replay.Desc, Input: c.Replay.Input()}
		checkFloatLiteral(c, cs)
		return
	}
	th := c.Thorough()
	perRow, nfl, perExp := 400, 12000, 100
	if th {
		perRow, nfl, perExp = 4000, 100000, 600
	}
	workload.W6Rows(perRow, c.Seed, local, mineIdx)
	workload.W6Generic(nfl, th, c.Seed, local, mineIdx)
	workload.W6Exponents(perExp, c.Seed, local, mineIdx)
	workload.W6Special(hashed)
	// every digit-run length 1..600 (and around 1024, 4096, 65536) in fraction and exponent position
	workload.W1Len(func(cs *h.Case) {
		if cs.P[2] == 0 {
			if e, ok := refmodel.ScanNumber(cs.Input, 0); ok && e == len(cs.Input) {
				hashed(cs)
			}
		}
	})
	// every number literal of the document pools, and the W1 number tokens
	cs := &h.Case{Family: "pool"}
	for _, lit := range append(append([]string{}, workload.NumPool...), workload.NumberTokens...) {
		cs.Input = []byte(lit)
		cs.Desc = "pool literal"
		hashed(cs)
	}
}

func checkFloatLiteral(c *Ctx, cs *h.Case) {
	lit := string(cs.Input)
	if e, ok := refmodel.ScanNumber(cs.Input, 0); !ok || e != len(lit) {
		c.Rec.Inconsistent(cs, "workload produced something that is not a JSON number literal", "number", lit)
		return
	}
	want, wantOK := refmodel.Float(lit)
	exactOracle := false
	if intPartDigits(lit) > 800 || expDigits(lit) >= 5 {
		// strconv itself misplaces the decimal point when more than 800 integer-part digits
		// reach its slow path (see DESIGN.md §9, finding 4), and it stops accumulating the exponent
		// at five digits, which is wrong once the literal has that many digits to compensate
		// (finding 5): use exact rational arithmetic.
		if ef, eok, valid := refmodel.ExactFloat(lit); valid {
			want, wantOK, exactOracle = ef, eok, true
			c.Rec.C("oracle_is_exact_rational_arithmetic_where_strconv_is_known_to_be_wrong")
		}
	}
	nd, hasExp := sigDigits(lit)
	if nd > 15 || hasExp {
		c.Rec.R.Nontrivial++
	}
	switch {
	case nd > 800:
		c.Rec.C("digits_over_800")
	case nd > 19:
		c.Rec.C("digits_20_to_800")
	case nd >= 17:
		c.Rec.C("digits_17_to_19")
	default:
		c.Rec.C("digits_up_to_16")
	}
	if !wantOK {
		c.Rec.C("expect_range_error")
	} else if want == 0 {
		c.Rec.C("expect_zero")
	} else if math.Abs(want) < 2.2250738585072014e-308 {
		c.Rec.C("expect_subnormal")
	}
	// monitor the oracle itself on a sample (and on every short-enough special case)
	if !exactOracle && (c.Rec.R.Cases%50 == 0 || (cs.Family == "W6s" && len(lit) < 400)) {
		ef, eok, valid := refmodel.ExactFloat(lit)
		if valid {
			c.Rec.C("oracle_rechecked_with_exact_rational_arithmetic")
			if eok != wantOK || (eok && math.Float64bits(ef) != math.Float64bits(want)) {
				c.Rec.Inconsistent(cs, "strconv.ParseFloat != exact big.Rat rounding", fmt.Sprintf("%v %v", ef, eok), fmt.Sprintf("%v %v", want, wantOK))
			}
		}
	}
	r := workload.NewRand(c.Seed, h.Hash(cs.Input))
	followers := floatFollowers
	if !c.Thorough() {
		followers = []string{"", floatFollowers[1+r.Intn(len(floatFollowers)-1)], floatFollowers[1+r.Intn(len(floatFollowers)-1)]}
		if h.Hash(cs.Input)%4 == 0 {
			followers = append(followers, longTail) // many bytes remaining after the literal
		}
	} else {
		followers = append(append([]string{}, followers...), longTail)
	}
	c.Guarded(cs, "ReadFloat64", func() {
		for fi, fol := range followers {
			pre := ""
			if fi%3 == 2 {
				pre = [...]string{" ", "\n\t", "\r "}[r.Intn(3)]
			}
			in := []byte(pre + lit + fol)
			got, p, err := rjson.ReadFloat64(in)
			c.Rec.Evals(1)
			checkFloatResult(c, cs, "ReadFloat64", in, got, p, err, want, wantOK, len(pre)+len(lit))
			var tgt float64 = 12345.678
			p2, err2 := rjson.DecodeFloat64(in, &tgt)
			c.Rec.Evals(1)
			checkFloatResult(c, cs, "DecodeFloat64", in, tgt, p2, err2, want, wantOK, len(pre)+len(lit))
			if err2 != nil && math.Float64bits(tgt) != math.Float64bits(12345.678) {
				c.Rec.Violate(cs, "DecodeFloat64 wrote target on error", "DecodeFloat64", "target unchanged", fmt.Sprint(tgt))
			}
		}
		// longer whitespace prefixes (every length 3..24) on an eighth (thorough: 5/12) of the shorter literals: digit-count
		// and chunk thresholds must be measured from the number, not from the start of the data
		if len(lit) < 64 && ((c.Thorough() && h.Hash(cs.Input)%3 == 0) || h.Hash(cs.Input)%8 == 0) {
			c.Rec.C("literals_swept_over_whitespace_prefix_lengths")
			for k := 3; k <= 24; k++ {
				in := make([]byte, 0, k+len(lit)+1)
				for i := 0; i < k; i++ {
					in = append(in, " \t\n\r"[(i+k)%4])
				}
				in = append(in, lit...)
				if k%2 == 0 {
					in = append(in, ',')
				}
				got, p, err := rjson.ReadFloat64(in)
				c.Rec.Evals(1)
				checkFloatResult(c, cs, "ReadFloat64", in, got, p, err, want, wantOK, k+len(lit))
			}
		}
		// numbers inside generic decoding
		docs := []string{lit, "[" + lit + "]", `{"a":` + lit + `}`, "[0, " + lit + " ,1]"}
		di := r.Intn(len(docs))
		if c.Thorough() {
			di = -1
		}
		for i, doc := range docs {
			if di >= 0 && i != di {
				continue
			}
			v, p, err := rjson.ReadValue([]byte(doc))
			c.Rec.Evals(1)
			if (err == nil) != wantOK {
				c.Rec.Violate(cs, "ReadValue(number) success!=strconv", "ReadValue", fmt.Sprintf("ok=%v", wantOK), fmt.Sprintf("doc=%s err=%s", trunc(doc), errStr(err)))
				continue
			}
			if !wantOK {
				continue
			}
			var f interface{} = v
			switch i {
			case 1:
				f = v.([]interface{})[0]
			case 2:
				f = v.(map[string]interface{})["a"]
			case 3:
				f = v.([]interface{})[1]
			}
			ff, ok := f.(float64)
			if !ok || math.Float64bits(ff) != math.Float64bits(want) || p != len(doc) {
				c.Rec.Violate(cs, "ReadValue(number) value!=strconv", "ReadValue", fmt.Sprintf("%v (%#x) p=%d", want, math.Float64bits(want), len(doc)), fmt.Sprintf("%v p=%d", f, p))
			}
		}
	})
	if c.Rec.WantSample() && c.Rec.R.Cases%3001 == 1 {
		c.Rec.Sample(map[string]interface{}{"literal": trunc(lit), "how": cs.Describe(), "strconv": fmt.Sprintf("%v ok=%v", want, wantOK), "significant_digits": nd})
	}
}

// expDigits counts the digits of the exponent after its sign and leading zeros (0 without exponent).
func expDigits(lit string) int {
	i := strings.IndexAny(lit, "eE")
	if i < 0 {
		return 0
	}
	i++
	if i < len(lit) && (lit[i] == '+' || lit[i] == '-') {
		i++
	}
	for i < len(lit) && lit[i] == '0' {
		i++
	}
	return len(lit) - i
}

// intPartDigits counts the digits of the integer part after leading zeros.
func intPartDigits(lit string) int {
	i := 0
	if i < len(lit) && lit[i] == '-' {
		i++
	}
	for i < len(lit) && lit[i] == '0' {
		i++
	}
	n := 0
	for i < len(lit) && lit[i] >= '0' && lit[i] <= '9' {
		n++
		i++
	}
	return n
}

func trunc(s string) string {
	if len(s) > 120 {
		return fmt.Sprintf("%s...(%d bytes)", s[:120], len(s))
	}
	return s
}

func checkFloatResult(c *Ctx, cs *h.Case, entry string, in []byte, got float64, p int, err error, want float64, wantOK bool, wantP int) {
	if (err == nil) != wantOK {
		c.Rec.Violate(cs, entry+" error!=(rounded magnitude overflows)", entry, fmt.Sprintf("ok=%v (%v)", wantOK, want), fmt.Sprintf("input=%s got=%v p=%d err=%s", trunc(string(in)), got, p, errStr(err)))
		return
	}
	if !wantOK {
		return
	}
	if math.Float64bits(got) != math.Float64bits(want) {
		c.Rec.Violate(cs, entry+" value!=correctly rounded", entry, fmt.Sprintf("%v (%#x)", want, math.Float64bits(want)), fmt.Sprintf("%v (%#x) for input %s", got, math.Float64bits(got), trunc(string(in))))
	}
	if p != wantP {
		c.Rec.Violate(cs, entry+" offset!=end of literal", entry, fmt.Sprintf("p=%d", wantP), fmt.Sprintf("p=%d for input %s", p, trunc(string(in))))
	}
}

// ---------------------------------------------------------------- C05

type intReader struct {
	name     string
	min, max *big.Int
	read     func([]byte) (*big.Int, int, error)
	decode   func([]byte) (*big.Int, int, error, bool) // value, p, err, targetChanged
}

func bi(s string) *big.Int { v, _ := new(big.Int).SetString(s, 10); return v }

var intReaders = []intReader{
	{"Int64", bi("-9223372036854775808"), bi("9223372036854775807"),
		func(d []byte) (*big.Int, int, error) { v, p, e := rjson.ReadInt64(d); return big.NewInt(v), p, e },
		func(d []byte) (*big.Int, int, error, bool) {
			t := int64(-7777)
			p, e := rjson.DecodeInt64(d, &t)
			return big.NewInt(t), p, e, t != -7777
		}},
	{"Uint64", bi("0"), bi("18446744073709551615"),
		func(d []byte) (*big.Int, int, error) {
			v, p, e := rjson.ReadUint64(d)
			return new(big.Int).SetUint64(v), p, e
		},
		func(d []byte) (*big.Int, int, error, bool) {
			t := uint64(7777)
			p, e := rjson.DecodeUint64(d, &t)
			return new(big.Int).SetUint64(t), p, e, t != 7777
		}},
	{"Int32", bi("-2147483648"), bi("2147483647"),
		func(d []byte) (*big.Int, int, error) {
			v, p, e := rjson.ReadInt32(d)
			return big.NewInt(int64(v)), p, e
		},
		func(d []byte) (*big.Int, int, error, bool) {
			t := int32(-7777)
			p, e := rjson.DecodeInt32(d, &t)
			return big.NewInt(int64(t)), p, e, t != -7777
		}},
	{"Uint32", bi("0"), bi("4294967295"),
		func(d []byte) (*big.Int, int, error) {
			v, p, e := rjson.ReadUint32(d)
			return new(big.Int).SetUint64(uint64(v)), p, e
		},
		func(d []byte) (*big.Int, int, error, bool) {
			t := uint32(7777)
			p, e := rjson.DecodeUint32(d, &t)
			return new(big.Int).SetUint64(uint64(t)), p, e, t != 7777
		}},
	{"Int", big.NewInt(math.MinInt), big.NewInt(math.MaxInt),
		func(d []byte) (*big.Int, int, error) { v, p, e := rjson.ReadInt(d); return big.NewInt(int64(v)), p, e },
		func(d []byte) (*big.Int, int, error, bool) {
			t := int(-7777)
			p, e := rjson.DecodeInt(d, &t)
			return big.NewInt(int64(t)), p, e, t != -7777
		}},
	{"Uint", bi("0"), new(big.Int).SetUint64(math.MaxUint),
		func(d []byte) (*big.Int, int, error) {
			v, p, e := rjson.ReadUint(d)
			return new(big.Int).SetUint64(uint64(v)), p, e
		},
		func(d []byte) (*big.Int, int, error, bool) {
			t := uint(7777)
			p, e := rjson.DecodeUint(d, &t)
			return new(big.Int).SetUint64(uint64(t)), p, e, t != 7777
		}},
}

// C05: integer readers are exact and range-checked.
func RunC05(c *Ctx) {
	var check func(cs *h.Case)
	views := func(cs *h.Case) {
		check(cs)
		// the same token on three more views: a copy with cap == len (a read through the capacity
		// panics), a copy whose spare capacity holds more digits (such a read would extend the number;
		// seeded change C05r7-m1), and followed by a long tail (a hot path that only engages when many
		// bytes remain; seeded change C05r7-m2: '-0123...' with 20 or more bytes left)
		if n := len(cs.Input); n <= 40 && c.Rec.R.Cases%2 == 0 {
			orig := cs.Input
			tight := make([]byte, n)
			copy(tight, orig)
			v := *cs
			v.Input = tight[:n:n]
			check(&v)
			v.Input = withBait(orig)
			check(&v)
			v.Input = append(append([]byte(nil), orig...), ", 4, 5, 6, 7, 8, 9, 10, 11, 12]"...)
			v.DescFn, v.Desc = nil, cs.Describe()+" + long tail"
			check(&v)
			c.Rec.C("inputs_also_run_as_tight_baited_and_long_tailed_views")
		}
	}
	check = func(cs *h.Case) {
		d := cs.Input
		for _, r := range intReaders {
			r := r
			c.Guarded(cs, "Read"+r.name, func() {
				want, wend, wok := refmodel.IntModel(d, r.min, r.max)
				got, p, err := r.read(d)
				c.Rec.Evals(1)
				if wok {
					c.Rec.C("expect_success_" + r.name)
				} else {
					c.Rec.C("expect_error_" + r.name)
				}
				if (err == nil) != wok {
					c.Rec.Violate(cs, "Read"+r.name+" success!=model", "Read"+r.name, fmt.Sprintf("ok=%v", wok), fmt.Sprintf("val=%v p=%d err=%s", got, p, errStr(err)))
				} else if wok && (got.Cmp(want) != 0 || p != wend) {
					c.Rec.Violate(cs, "Read"+r.name+" value/offset!=model", "Read"+r.name, fmt.Sprintf("val=%v p=%d", want, wend), fmt.Sprintf("val=%v p=%d", got, p))
				}
				// Decode form behaves the same on non-null input
				if !startsWithNull(d) {
					dv, dp, derr, changed := r.decode(d)
					c.Rec.Evals(1)
					if (derr == nil) != wok {
						c.Rec.Violate(cs, "Decode"+r.name+" success!=model", "Decode"+r.name, fmt.Sprintf("ok=%v", wok), fmt.Sprintf("val=%v p=%d err=%s", dv, dp, errStr(derr)))
					} else if wok && (dv.Cmp(want) != 0 || dp != wend) {
						c.Rec.Violate(cs, "Decode"+r.name+" value/offset!=model", "Decode"+r.name, fmt.Sprintf("val=%v p=%d", want, wend), fmt.Sprintf("val=%v p=%d", dv, dp))
					} else if !wok && changed {
						c.Rec.Violate(cs, "Decode"+r.name+" wrote target on error", "Decode"+r.name, "target unchanged", fmt.Sprint(dv))
					}
				}
			})
		}
		if c.Rec.WantSample() && c.Rec.R.Cases%20011 == 1 {
			w, e, ok := refmodel.IntModel(d, intReaders[0].min, intReaders[0].max)
			g, p, err := rjson.ReadInt64(d)
			c.Rec.Sample(map[string]interface{}{"input": h.Quote(d), "model_int64": fmt.Sprintf("%v end=%d ok=%v", w, e, ok), "rjson_ReadInt64": fmt.Sprintf("%v p=%d err=%s", g, p, errStr(err))})
		}
	}
	if c.Replay != nil {
		check(&h.Case{Family: c.Replay.Family, Desc: c.Replay.Desc, Input: c.Replay.Input()})
		return
	}
	sink := func(cs *h.Case) {
		if !c.Mine(cs.Input) {
			return
		}
		c.Rec.R.Cases++
		c.Rec.R.Counters["family_"+cs.Family]++
		if isDigitsWithSign(cs.Input) {
			c.Rec.R.Nontrivial++
		}
		c.Mark("C05 "+cs.Family, cs.Input)
		views(cs)
	}
	window, nrand := 300, 200000
	if c.Thorough() {
		window, nrand = 5000, 4000000
	}
	workload.W1R(sink)
	workload.W1Words(sink)
	workload.W1First(sink)
	workload.W1RL(sink)
	workload.W1Len(func(cs *h.Case) {
		if cs.P[2] == 0 {
			sink(cs)
		}
	})
	workload.W1D(func(cs *h.Case) {
		if cs.P[3]>>8 <= 1 { // top-level contexts only
			sink(cs)
		}
	})
	workload.W6Ints(window, nrand, c.Seed, sink)
	// the byte sweep over number tokens in W1 gives every byte at every position of short literals
	workload.W1(false, func(cs *h.Case) {
		if cs.P[0] >= workload.TopLevelSeeds() { // only the three top-level contexts: integer readers see the token first
			return
		}
		sink(cs)
	})
}

func startsWithNull(d []byte) bool {
	p := refmodel.SkipWS(d, 0)
	return strings.HasPrefix(string(d[p:]), "null")
}

func isDigitsWithSign(d []byte) bool {
	p := refmodel.SkipWS(d, 0)
	if p < len(d) && d[p] == '-' {
		p++
	}
	return p < len(d) && d[p] >= '0' && d[p] <= '9'
}

var _ = strconv.Itoa
