package monitor

import (
	"fmt"
	"hash/fnv"
	"math"
	"os"
	"path/filepath"
	"regexp"
	"runtime"
	"runtime/debug"
	"sort"
	"strconv"
	"strings"
	"sync"
	"sync/atomic"

	"github.com/willabides/rjson"

	h "verif/internal/harness"
	"verif/internal/refmodel"
	"verif/internal/workload"
)

// hashTree is a canonical (map-order independent) hash of a decoded value.
func hashTree(v interface{}) uint64 {
	f := fnv.New64a()
	var walk func(v interface{})
	walk = func(v interface{}) {
		switch t := v.(type) {
		case nil:
			f.Write([]byte{0})
		case bool:
			if t {
				f.Write([]byte{1, 1})
			} else {
				f.Write([]byte{1, 0})
			}
		case float64:
			b := math.Float64bits(t)
			var x [9]byte
			x[0] = 2
			for i := 0; i < 8; i++ {
				x[i+1] = byte(b >> (8 * uint(i)))
			}
			f.Write(x[:])
		case string:
			f.Write([]byte{3})
			f.Write([]byte(t))
			f.Write([]byte{0xff})
		case []interface{}:
			f.Write([]byte{4})
			for _, e := range t {
				walk(e)
			}
			f.Write([]byte{0xfe})
		case map[string]interface{}:
			f.Write([]byte{5})
			keys := make([]string, 0, len(t))
			for k := range t {
				keys = append(keys, k)
			}
			sort.Strings(keys)
			for _, k := range keys {
				f.Write([]byte(k))
				f.Write([]byte{0xfd})
				walk(t[k])
			}
			f.Write([]byte{0xfc})
		default:
			fmt.Fprintf(f, "%#v", t)
		}
	}
	walk(v)
	return f.Sum64()
}

func mix(a uint64, b uint64) uint64 {
	a ^= b + 0x9e3779b97f4a7c15 + (a << 6) + (a >> 2)
	return a
}

func hashRes(p int, err error, extra uint64) uint64 {
	x := mix(uint64(p), extra)
	if err != nil {
		x = mix(x, h.HashString(err.Error()))
	}
	return x
}

// gstate is the private state of one goroutine (never shared).
type gstate struct {
	buf     rjson.Buffer
	vr      rjson.ValueReader
	scratch []byte
	dst     []byte
	// arena shared by a PAIR of goroutines: the even one only reads the input windows, the odd one
	// only writes the gaps between them (as destinations). The regions are disjoint, so the calls
	// are independent; but the input windows are two-index slices whose CAPACITY runs over the
	// neighbour's gaps (seeded change C18r3-m2 over-read through the capacity).
	arena *pairArena
	odd   bool
	// value trees decoded ONCE from the pool's documents before the goroutines start and never
	// written afterwards (keyed by the address of the document's first byte): read-only inputs of
	// the StdLibCompatible helpers that several goroutines convert at the same time
	sharedTrees map[*byte]interface{}
}

type pairArena struct {
	mem      []byte
	tokens   [][2]int // [start,end) of windows holding a complete string token
	contents [][2]int // [start,end) of windows holding bare string content (no quotes): the gap follows at once
	gaps     [][2]int // [start,end) of destination gaps (one after every window)
}

var arenaTokens = []string{`"@ud83d"`, `"plain"`, `"a@nb"`, `"@ud83d@ude00"`, `"x@udbff"`, `""`, `"@u00e9@ud800"`}
var arenaContents = []string{`@ud83d`, `tail@udbff`, `a@nb@ud800`, `plain`, `@ud83d@ude00@ud83d`}

func newPairArena() *pairArena {
	pa := &pairArena{}
	add := func(in string, list *[][2]int) {
		in = strings.ReplaceAll(in, "@", "\\")
		st := len(pa.mem)
		pa.mem = append(pa.mem, in...)
		*list = append(*list, [2]int{st, len(pa.mem)})
		gs := len(pa.mem)
		pa.mem = append(pa.mem, make([]byte, 48)...)
		pa.gaps = append(pa.gaps, [2]int{gs, len(pa.mem)})
	}
	for _, in := range arenaTokens {
		add(in, &pa.tokens)
	}
	for _, in := range arenaContents {
		add(in, &pa.contents)
	}
	// the mapping is complete before any goroutine starts; windows and gaps never overlap
	return pa
}

const nOps = 30

var opNames = [nOps]string{"Valid", "SkipValue", "SkipValueFast", "ReadValue", "ReadObject", "ReadArray", "ValueReader.ReadValue", "ValueReader.ReadObject", "ValueReader.ReadArray",
	"ReadString", "ReadStringBytes", "UnescapeStringContent", "DecodeString", "ReadInt64", "ReadUint64", "ReadInt32", "ReadUint32", "ReadInt", "ReadUint", "ReadFloat64", "DecodeFloat64",
	"ReadBool", "ReadNull", "NextToken", "NextTokenType", "HandleArrayValues", "HandleObjectValues", "composition decoder", "StdLibCompatibleString/Bytes", "StdLibCompatibleSlice/Map"}

// doOp executes operation op on input d with goroutine-private state and returns a hash of
// everything it returned.
func doOp(st *gstate, op int, d []byte, salt uint64) uint64 {
	// the buffer-taking functions are called with no buffer half of the time (seeded change
	// C18-m1 hid shared state behind the nil-buffer path)
	buf := &st.buf
	if salt>>62&1 == 1 {
		buf = nil
	}
	if st.arena != nil && op >= 9 && op <= 12 && salt>>59&1 == 1 {
		if !st.odd {
			// reader of the pair: two-index windows, so their capacity runs on over the gaps
			if op == 11 && salt>>58&1 == 1 {
				w := st.arena.contents[int(salt>>8)%len(st.arena.contents)]
				b, p, e := rjson.UnescapeStringContent(st.arena.mem[w[0]:w[1]], nil)
				return hashRes(p, e, h.Hash(b))
			}
			w := st.arena.tokens[int(salt>>8)%len(st.arena.tokens)]
			in := st.arena.mem[w[0]:w[1]]
			switch op {
			case 9:
				s, p, e := rjson.ReadString(in, nil)
				return hashRes(p, e, h.HashString(s))
			case 10:
				b, p, e := rjson.ReadStringBytes(in, nil)
				return hashRes(p, e, h.Hash(b))
			case 11:
				b, p, e := rjson.UnescapeStringContent(in[1:len(in)-1], nil)
				return hashRes(p, e, h.Hash(b))
			default:
				s := "t"
				p, e := rjson.DecodeString(in, &s, nil)
				return hashRes(p, e, h.HashString(s))
			}
		}
		// writer of the pair: a destination carved out of a gap (never overlapping a window)
		g := st.arena.gaps[int(salt>>8)%len(st.arena.gaps)]
		dst := st.arena.mem[g[0]:g[0]:g[1]]
		b, p, e := rjson.ReadStringBytes(d, dst)
		if len(b) > 40 {
			b = b[:40]
		}
		return hashRes(p, e, h.Hash(b))
	}
	switch op {
	case 0:
		if rjson.Valid(d, buf) {
			return 1
		}
		return 2
	case 1:
		p, e := rjson.SkipValue(d, buf)
		return hashRes(p, e, 0)
	case 2:
		p, e := rjson.SkipValueFast(d, buf)
		return hashRes(p, e, 0)
	case 3:
		if salt>>56&1 == 1 {
			// a document whose 192 short keys occur nowhere else in the process (derived from the salt):
			// process-wide tables keyed by member names keep growing and reach their limits while other
			// goroutines decode (seeded change C18r8-m2: an interning table reset outside its lock once
			// it holds 65,536 keys)
			doc := make([]byte, 0, 192*24)
			doc = append(doc, '{')
			for j := 0; j < 192; j++ {
				doc = strconv.AppendUint(append(doc, '"', 'k'), salt^uint64(j)*0x9e3779b97f4a7c15, 36)
				doc = append(doc, '"', ':', byte('0'+j%10), ',')
			}
			doc = append(doc, `"z":[]}`...)
			v, p, e := rjson.ReadValue(doc)
			return hashRes(p, e, hashTree(v))
		}
		v, p, e := rjson.ReadValue(d)
		x := hashRes(p, e, hashTree(v))
		if salt>>57&1 == 1 {
			scribble(v, 0) // the caller owns what it was given (seeded change C18r4-m1: one shared empty map)
		}
		return x
	case 4:
		v, p, e := rjson.ReadObject(d)
		if e != nil {
			return hashRes(p, e, 0)
		}
		x := hashRes(p, e, hashTree(v))
		if salt>>57&1 == 1 {
			scribble(v, 0)
		}
		return x
	case 5:
		v, p, e := rjson.ReadArray(d)
		if e != nil {
			return hashRes(p, e, 0)
		}
		x := hashRes(p, e, hashTree(v))
		if salt>>57&1 == 1 {
			scribble(v, 0)
		}
		return x
	case 6:
		v, p, e := st.vr.ReadValue(d)
		x := hashRes(p, e, hashTree(v))
		if salt>>57&1 == 1 {
			scribble(v, 0)
		}
		return x
	case 7:
		v, p, e := st.vr.ReadObject(d)
		if e != nil {
			return hashRes(p, e, 0)
		}
		x := hashRes(p, e, hashTree(v))
		if salt>>57&1 == 1 {
			scribble(v, 0)
		}
		return x
	case 8:
		v, p, e := st.vr.ReadArray(d)
		if e != nil {
			return hashRes(p, e, 0)
		}
		x := hashRes(p, e, hashTree(v))
		if salt>>57&1 == 1 {
			scribble(v, 0)
		}
		return x
	case 9:
		scr := &st.scratch
		if buf == nil { // every optional argument is also exercised as nil
			scr = nil
		}
		s, p, e := rjson.ReadString(d, scr)
		return hashRes(p, e, h.HashString(s))
	case 10:
		var b []byte
		if buf == nil {
			b, p, e := rjson.ReadStringBytes(d, nil)
			return hashRes(p, e, h.Hash(b))
		}
		b, p, e := rjson.ReadStringBytes(d, st.dst[:0])
		x := hashRes(p, e, h.Hash(b))
		if e == nil {
			st.dst = b
		}
		return x
	case 11:
		var b []byte
		if buf == nil {
			// on the content of the token when d is a quoted string (an empty key gives an empty,
			// but capacity-carrying, slice of the shared document), then append to the result as
			// a caller owning it would (seeded change C18r3-m1 returned a window into the input)
			in := d
			if len(d) >= 2 && d[0] == '"' && d[len(d)-1] == '"' {
				in = d[1 : len(d)-1]
			}
			b, p, e := rjson.UnescapeStringContent(in, nil)
			if e == nil {
				b = append(b, '!')
			}
			return hashRes(p, e, h.Hash(b))
		}
		b, p, e := rjson.UnescapeStringContent(d, st.dst[:0])
		x := hashRes(p, e, h.Hash(b))
		if e == nil {
			st.dst = b
		}
		return x
	case 12:
		s := "t"
		scr := &st.scratch
		if buf == nil {
			scr = nil
		}
		p, e := rjson.DecodeString(d, &s, scr)
		return hashRes(p, e, h.HashString(s))
	case 13:
		v, p, e := rjson.ReadInt64(d)
		return hashRes(p, e, uint64(v))
	case 14:
		v, p, e := rjson.ReadUint64(d)
		return hashRes(p, e, v)
	case 15:
		v, p, e := rjson.ReadInt32(d)
		return hashRes(p, e, uint64(v))
	case 16:
		v, p, e := rjson.ReadUint32(d)
		return hashRes(p, e, uint64(v))
	case 17:
		v, p, e := rjson.ReadInt(d)
		return hashRes(p, e, uint64(v))
	case 18:
		v, p, e := rjson.ReadUint(d)
		return hashRes(p, e, uint64(v))
	case 19:
		v, p, e := rjson.ReadFloat64(d)
		return hashRes(p, e, math.Float64bits(v))
	case 20:
		v := 2.5
		p, e := rjson.DecodeFloat64(d, &v)
		return hashRes(p, e, math.Float64bits(v))
	case 21:
		v, p, e := rjson.ReadBool(d)
		x := uint64(0)
		if v {
			x = 1
		}
		return hashRes(p, e, x)
	case 22:
		p, e := rjson.ReadNull(d)
		return hashRes(p, e, 0)
	case 23:
		t, p, e := rjson.NextToken(d)
		return hashRes(p, e, uint64(t))
	case 24:
		t, p, e := rjson.NextTokenType(d)
		// TokenType.String is part of the API too, also for values that name no token
		// (seeded change C18-m2 memoised those names in a package-level table)
		x := h.HashString(t.String())
		x = mix(x, h.HashString(rjson.TokenType(salt%256).String()))
		x = mix(x, h.HashString(rjson.TokenType(12+(salt>>8)%32).String()))
		return hashRes(p, e, mix(uint64(t), x))
	case 25, 26:
		x := uint64(7)
		i := 0
		ans := func(key, data []byte) (int, error) {
			x = mix(x, uint64(len(data)))
			x = mix(x, h.Hash(key))
			i++
			if (salt>>uint(i%60))&1 == 0 {
				return 0, nil
			}
			// exact skipping through the library itself, with the private buffer (re-entrant)
			var p int
			var e error
			if (salt>>61)&1 == 1 {
				p, e = rjson.SkipValueFast(data, buf)
			} else {
				p, e = rjson.SkipValue(data, buf)
			}
			if e != nil {
				return 0, nil
			}
			return p, nil
		}
		var p int
		var e error
		if op == 25 {
			p, e = rjson.HandleArrayValues(d, rjson.ArrayValueHandlerFunc(func(b []byte) (int, error) { return ans(nil, b) }), buf)
		} else {
			p, e = rjson.HandleObjectValues(d, rjson.ObjectValueHandlerFunc(func(k, b []byte) (int, error) { return ans(k, b) }), buf)
		}
		return hashRes(p, e, x)
	case 27:
		cp := &composer{r: workload.NewRand(int64(salt), 1), readAll: salt&1 == 0, buf: buf, used: map[string]int{}}
		v, p, e := cp.value(d, 1, false)
		if e != nil {
			return hashRes(p, e, 0)
		}
		if !cp.readAll {
			return hashRes(p, e, 0)
		}
		return hashRes(p, e, hashTree(v))
	case 28:
		s := rjson.StdLibCompatibleString(string(d))
		dst := st.dst[:0]
		if buf == nil {
			dst = nil
		}
		b := rjson.StdLibCompatibleStringBytes(d, dst)
		return mix(h.HashString(s), h.Hash(b))
	default:
		if len(d) > 0 && salt>>58&1 == 1 {
			if tv, ok := st.sharedTrees[&d[0]]; ok {
				// a decoded document that other goroutines convert too: the copy is this goroutine's
				// own and it edits it (seeded change C18r7-m1: nested containers without invalid UTF-8
				// reused from the argument instead of copied)
				var res interface{}
				switch t := tv.(type) {
				case []interface{}:
					res = rjson.StdLibCompatibleSlice(t)
				case map[string]interface{}:
					res = rjson.StdLibCompatibleMap(t)
				}
				x := hashTree(res)
				scribble(res, 0)
				return mix(x, hashTree(tv))
			}
		}
		v, _, e := rjson.ReadValue(d)
		if e != nil {
			return 3
		}
		if treeKeysCollide(v) {
			// two keys become equal after replacement: which value survives depends on map
			// iteration order, legitimately; only run the helpers, do not compare the result
			switch t := v.(type) {
			case []interface{}:
				rjson.StdLibCompatibleSlice(t)
			case map[string]interface{}:
				rjson.StdLibCompatibleMap(t)
			}
			return 5
		}
		switch t := v.(type) {
		case []interface{}:
			return hashTree(rjson.StdLibCompatibleSlice(t))
		case map[string]interface{}:
			return hashTree(rjson.StdLibCompatibleMap(t))
		}
		return 4
	}
}

type scriptStep struct {
	op   int
	in   int
	salt uint64
}

func c18Pool(seed int64) [][]byte {
	var pool [][]byte
	r := workload.NewRand(seed, 4242)
	for i := 0; i < 160; i++ {
		pool = append(pool, workload.W3Valid(seed, uint64(i)))
	}
	for i := 0; i < 120; i++ {
		pool = append(pool, workload.W3Doc(seed, uint64(i)))
	}
	// record documents: key sets and column values that repeat within a document and between the
	// documents different goroutines work on (process-wide caches and interning tables fill with these)
	for i := 0; i < 60; i++ {
		if d := workload.W11Doc(seed, uint64(i)); len(d) < 20000 {
			pool = append(pool, d)
		}
	}
	for _, s := range workload.SeedsCached() {
		if r.Intn(8) == 0 {
			pool = append(pool, []byte(s))
		}
	}
	for _, s := range workload.NumPool {
		pool = append(pool, []byte(s), []byte(" "+s+","))
	}
	for _, s := range workload.StrPool {
		pool = append(pool, []byte(s))
	}
	for _, s := range workload.IntCenters {
		pool = append(pool, []byte(s))
	}
	pool = append(pool, []byte("null"), []byte("true"), []byte(" false "), []byte(""), []byte("   "))
	// exactly at the depth limit: per-call state that leaks through a process-wide pool shifts the
	// limit for whoever gets the pooled object next (seeded change C18r8-m1)
	pool = append(pool, workload.BuildNest([]int{0}, 10000, "0", 10000), workload.BuildNest([]int{2, 0}, 10000, "", 10000), []byte(" null "))
	for _, d := range []int{30, 300, 2500, 9000} { // 9000: resource guards that count nesting process-wide add up across goroutines (C18r6-m2)
		pool = append(pool, workload.BuildNest([]int{0, 2}, d, "0", d), workload.BuildNest([]int{1, 3}, d, `"s"`, d/2))
	}
	// a document big enough that calls overlap for a long time
	pool = append(pool, workload.BigDocs[18].Make(30000), workload.BigDocs[20].Make(30000), workload.BigDocs[10].Make(20000))
	// strings beyond 64 KiB, alone and inside containers, short strings right after them: size-class
	// thresholds for scratch buffers (seeded change C18r5-m1 pooled scratch above 64 KiB and kept
	// using it)
	big := workload.BigDocs[7].Make(70000)
	esc := workload.BigDocs[10].Make(140000)
	pool = append(pool, big, esc,
		append(append([]byte(`["short",`), big...), `,"after\n"]`...),
		append(append([]byte(`{"k\t":`), esc...), `,"z":"tail"}`...),
		[]byte(`["after a big one","b\n"]`), []byte(`{"s":"x"}`))
	return pool
}

// C18: independent calls are safe to run concurrently (race detector + result equality).
func RunC18(c *Ctx) {
	if c.Replay != nil {
		fmt.Println("C18 witnesses are race reports or result divergences of a concurrent run; re-run `./check C18 quick` with the recorded seed to reproduce")
		return
	}
	procs := []int{2, 8, 16, 4, 16, 3, 12, 16, 6, 16}[c.Shard%10]
	runtime.GOMAXPROCS(procs)
	seed := c.Seed + int64(c.Shard)*1000
	pool := c18Pool(seed)
	// shared inputs live in read-only pages: a write by any goroutine faults
	guard, gerr := h.NewGuard(8 << 20)
	if gerr == nil {
		gb := guard.Begin()
		for i := range pool {
			if in, ok := gb.Add(pool[i]); ok {
				pool[i] = in
			}
		}
		gb.Seal()
	}
	sharedTrees := map[*byte]interface{}{}
	for _, d := range pool {
		if len(d) == 0 || len(d) > 4096 {
			continue
		}
		if v, _, e := rjson.ReadValue(d); e == nil && !treeKeysCollide(v) {
			switch v.(type) {
			case []interface{}, map[string]interface{}:
				sharedTrees[&d[0]] = v
			}
		}
	}
	c.Rec.Max("decoded_documents_shared_read_only_between_goroutines", int64(len(sharedTrees)))
	const G = 32
	steps := 1500
	if c.Thorough() {
		steps = 12000
	}
	scripts := make([][]scriptStep, G)
	for g := range scripts {
		r := workload.NewRand(seed, uint64(g)+90000)
		s := make([]scriptStep, steps)
		for i := range s {
			s[i] = scriptStep{op: r.Intn(nOps), in: r.Intn(len(pool)), salt: r.Uint64()}
			// goroutines are biased towards the same few inputs at the same time
			if r.Intn(2) == 0 {
				s[i].in = (i / 16) % len(pool)
			}
		}
		scripts[g] = s
	}
	runPass := func(observe bool, active *[G]int32, pairs *sync.Map) [][]uint64 {
		arenas := make([]*pairArena, G/2)
		for i := range arenas {
			arenas[i] = newPairArena()
		}
		results := make([][]uint64, G)
		var start sync.WaitGroup
		var done sync.WaitGroup
		start.Add(1)
		for g := 0; g < G; g++ {
			done.Add(1)
			results[g] = make([]uint64, steps)
			go func(g int) {
				defer done.Done()
				st := &gstate{arena: arenas[g/2], odd: g%2 == 1, sharedTrees: sharedTrees}
				res := results[g]
				debug.SetPanicOnFault(true) // per goroutine: a store into a read-only shared input becomes a panic here
				start.Wait()
				defer func() {
					if r := recover(); r != nil {
						c.Rec.AddViolation(h.Violation{Property: c.Prop, Oracle: "panic in a concurrent call", Entry: "goroutine", Observed: fmt.Sprint(r), Seed: c.Seed, Tier: c.Tier, Key: "C18|panic|" + fmt.Sprint(r)})
					}
				}()
				for i, stp := range scripts[g] {
					if observe {
						atomic.StoreInt32(&active[g], int32(stp.op)+1)
						o := atomic.LoadInt32(&active[(g+1+i%(G-1))%G])
						if o > 0 {
							a, b := stp.op, int(o-1)
							if a > b {
								a, b = b, a
							}
							pairs.Store(a*nOps+b, true)
						}
					}
					res[i] = doOp(st, stp.op, pool[stp.in], stp.salt)
				}
				if observe {
					atomic.StoreInt32(&active[g], 0)
				}
			}(g)
		}
		start.Done()
		done.Wait()
		return results
	}
	// pure pass: no harness synchronisation between calls
	pure := runPass(false, nil, nil)
	// observed pass: record which API functions were simultaneously active
	var active [G]int32
	var pairs sync.Map
	observed := runPass(true, &active, &pairs)
	npairs := 0
	pairs.Range(func(k, v interface{}) bool {
		npairs++
		kk := k.(int)
		c.Rec.SetAdd("co_active_function_pairs", opNames[kk/nOps]+" || "+opNames[kk%nOps])
		return true
	})
	// sequential oracle: the same scripts one after another
	mism := 0
	seqArenas := make([]*pairArena, G/2)
	for i := range seqArenas {
		seqArenas[i] = newPairArena()
	}
	for g := 0; g < G; g++ {
		st := &gstate{arena: seqArenas[g/2], odd: g%2 == 1, sharedTrees: sharedTrees}
		for i, stp := range scripts[g] {
			want := doOp(st, stp.op, pool[stp.in], stp.salt)
			c.Rec.R.Evaluations += 3
			c.Rec.R.Counters["calls_"+opNames[stp.op]]++
			for pi, got := range []uint64{pure[g][i], observed[g][i]} {
				if got != want {
					mism++
					c.Rec.AddViolation(h.Violation{Property: c.Prop, Oracle: "a concurrent call returned something else than the same call run sequentially", Entry: opNames[stp.op], Family: "W-concurrent",
						Desc: fmt.Sprintf("GOMAXPROCS=%d goroutine %d step %d pass %d", procs, g, i, pi), InputB64: b64(pool[stp.in]), InputQ: h.Quote(pool[stp.in]),
						Expected: fmt.Sprintf("result hash %#x", want), Observed: fmt.Sprintf("result hash %#x", got), Seed: c.Seed, Tier: c.Tier,
						Key: fmt.Sprintf("C18|diverge|%s|%d", opNames[stp.op], stp.in)})
				}
			}
		}
	}
	c.Rec.R.Cases += int64(G * steps)
	c.Rec.R.Nontrivial += int64(G * steps)
	c.Rec.Count("concurrent_calls_pure_pass", int64(G*steps))
	c.Rec.Count("concurrent_calls_observed_pass", int64(G*steps))
	c.Rec.Max("max_distinct_co_active_function_pairs_in_one_run", int64(npairs))
	c.Rec.Count("goroutines", G)
	c.Rec.R.Notes = append(c.Rec.R.Notes, fmt.Sprintf("shard %d: GOMAXPROCS=%d, %d goroutines x %d calls x 2 passes, %d shared inputs, %d distinct co-active function pairs observed, %d result divergences", c.Shard, procs, G, steps, len(pool), npairs, mism))
	c.Rec.Sample(map[string]interface{}{"gomaxprocs": procs, "goroutines": G, "calls_per_goroutine": steps, "shared_read_only_inputs": len(pool), "co_active_function_pairs_seen": npairs, "first_steps_of_goroutine_0": fmt.Sprintf("%v", scripts[0][:6])})
	_ = refmodel.MaxDepth
}

var raceFrameRe = regexp.MustCompile(`(?m)^\s+(github\.com/willabides/rjson[^\s(]*)`)

// CollectRaceReports parses the race detector's log files and turns each distinct report
// (by the rjson frames involved) into a violation.
func CollectRaceReports(runDir string, rep *h.Report, prop string, seed int64) {
	files, _ := filepath.Glob(filepath.Join(runDir, "race.*"))
	total := 0
	seen := map[string]bool{}
	for _, f := range files {
		b, err := os.ReadFile(f)
		if err != nil {
			continue
		}
		blocks := strings.Split(string(b), "==================")
		for _, blk := range blocks {
			if !strings.Contains(blk, "WARNING: DATA RACE") {
				continue
			}
			total++
			frames := raceFrameRe.FindAllStringSubmatch(blk, -1)
			var fs []string
			for _, m := range frames {
				fs = append(fs, m[1])
			}
			key := strings.Join(uniq(fs), " | ")
			if seen[key] {
				continue
			}
			seen[key] = true
			if len(blk) > 3500 {
				blk = blk[:3500]
			}
			rep.Violations = append(rep.Violations, h.Violation{Property: prop, Oracle: "data race reported by the Go race detector", Entry: key, Observed: "WARNING: DATA RACE", Crash: blk, Seed: seed, Key: "C18|race|" + key})
			rep.NViolations++
		}
	}
	if rep.Counters == nil {
		rep.Counters = map[string]int64{}
	}
	rep.Counters["race_detector_log_files"] = int64(len(files))
	rep.Counters["race_reports_total"] = int64(total)
	rep.Counters["race_reports_distinct"] = int64(len(seen))
}

func uniq(s []string) []string {
	m := map[string]bool{}
	var out []string
	for _, x := range s {
		if !m[x] {
			m[x] = true
			out = append(out, x)
		}
	}
	sort.Strings(out)
	return out
}
