package monitor

import (
	"fmt"
	"runtime"
	"strings"

	"github.com/willabides/rjson"

	h "verif/internal/harness"
	"verif/internal/refmodel"
	"verif/internal/workload"
)

var vrFnNames = [...]string{"ReadValue", "ReadObject", "ReadArray"}

func vrCall(vr *rjson.ValueReader, fn int, d []byte) (interface{}, int, error) {
	switch fn {
	case 0:
		return vr.ReadValue(d)
	case 1:
		v, p, e := vr.ReadObject(d)
		if e != nil {
			return nil, p, e
		}
		if v == nil {
			v = map[string]interface{}{} // nil and empty containers are equal by content
		}
		return v, p, e
	default:
		v, p, e := vr.ReadArray(d)
		if e != nil {
			return nil, p, e
		}
		if v == nil {
			v = []interface{}{}
		}
		return v, p, e
	}
}

// scribble modifies a returned value the way a caller might: overwrite elements, append
// within capacity (exposes shared backing arrays), add and delete keys.
func scribble(v interface{}, depth int) {
	switch t := v.(type) {
	case []interface{}:
		for i := range t {
			scribble(t[i], depth+1)
		}
		for i := range t {
			t[i] = "SCRIBBLED"
		}
		full := t[:cap(t)]
		for i := len(t); i < len(full); i++ {
			full[i] = "SCRIBBLED-SPARE"
		}
		_ = append(t, "APPENDED", 3.25)
	case map[string]interface{}:
		for k, x := range t {
			scribble(x, depth+1)
			t[k] = "SCRIBBLED"
		}
		t["__added__!"] = []interface{}{1.0} // even length: survives the deletions below, also in an empty map
		for k := range t {
			if len(k)%2 == 1 {
				delete(t, k)
			}
		}
	}
}

func okKind(fn int, k refmodel.Kind) bool {
	switch fn {
	case 1:
		return k == refmodel.KObject
	case 2:
		return k == refmodel.KArray
	}
	return true
}

// scribbleSpare writes into the spare capacity of every slice of a result, which the caller owns
// (it is what append would do), and changes nothing else: the result must still read the same
// afterwards, i.e. no other part of it - and no other result - may live in that spare capacity
// (seeded change C16r6-m1: the next array decoded into the leftover capacity of an empty one that
// had already been handed out).
func scribbleSpare(v interface{}) {
	switch t := v.(type) {
	case []interface{}:
		full := t[:cap(t)]
		for i := len(t); i < len(full); i++ {
			full[i] = "SCRIBBLED-SPARE"
		}
		for i := range t {
			scribbleSpare(t[i])
		}
	case map[string]interface{}:
		for _, x := range t {
			scribbleSpare(x)
		}
	}
}

type keptErr struct {
	err  error
	text string
}

type kept struct {
	orig interface{}
	snap interface{}
	from string
}

// C15: a reused ValueReader matches a fresh one and never mutates returned values.
func RunC15(c *Ctx) {
	runHistory := func(index uint64, verbose bool) {
		r := workload.NewRand(c.Seed, index+800000000)
		n := 20 + r.Intn(50)
		var vr rjson.ValueReader
		var keep []kept
		var keptErrs []keptErr
		prev := "start"
		limitThemed := index%30 == 11
		sizeThemed := index%30 == 17
		numberThemed := index%30 == 23
		// record-themed history: a handful of record documents (arrays of objects that repeat one key set, keys
		// that are easy to confuse, columns whose values repeat) decoded again and again in changing order
		recordThemed := index%30 == 3
		recordBase := workload.NewRand(c.Seed, index+1900000000).Uint64() % 40000 // its own stream: the histories' stream stays what it was
		inbuf := make([]byte, 1<<16)
		var prevDoc []byte
		small := []string{"null", " null ", "{}", "[]", "[1]", `{"a":1}`, `{"a":1,"b":[true]}`, `{"a":1,"b":`, `[1,2,`, `"str"`, "12", `{"a":{"b":[]}}`, `[[],[[]]]`, "nul", ""}
		// one history in 13 has garbage collections between its calls (two in a row empty sync.Pool's victim
		// cache as well): child readers, scratch or hints parked in a pool, behind a finalizer or a weak
		// pointer only change hands there
		var gcr *workload.Rand
		if index%13 == 6 {
			gcr = workload.NewRand(c.Seed, index+1700000000)
		}
		for i := 0; i < n; i++ {
			if gcr != nil && gcr.Intn(3) == 0 {
				runtime.GC()
				runtime.GC()
				c.Rec.C("garbage_collections_forced_between_calls")
			}
			doc, dk := workload.HistDoc(r, c.Seed, i%9 == 4 && index%4 == 0)
			fn := r.Intn(3)
			forced := false
			switch {
			case recordThemed:
				doc, dk, forced = workload.W11Doc(c.Seed, recordBase+uint64(r.Intn(6))), "record-themed", true
				if prevDoc != nil && r.Intn(3) == 0 {
					if sib, ok := siblingSameLength(prevDoc); ok {
						doc, dk = sib, "same-length sibling of the previous record document"
						c.Rec.C("same_length_sibling_documents")
					}
				}
			case numberThemed:
				// number-themed history: numbers that need the slow decimal path, overflow failures and
				// ordinary numbers in turn (seeded change C15r8-m1: a per-reader scratch decimal that is
				// not emptied on the out-of-range exit, so the next slow-path number is appended to it)
				doc, dk, forced = numberThemedDoc(r), "number-themed", true
			case sizeThemed:
				// size-themed history: containers just below / at / above the widths where hints and
				// spare parts kick in, empty containers right after wide ones, strings of exactly a power
				// of two (and one less / more) bytes followed by short strings (seeded changes C15r5-m1:
				// a 32768-byte string shares the scratch the reader keeps; C15r5-m2: the pre-sized map
				// of an empty object kept as a spare although it was also returned)
				doc, dk, forced = sizeThemedDoc(r, i), "size-themed", true
			case limitThemed && i%2 == 0:
				// limit-themed history: small state-changing calls through all three methods (null
				// rejections, empty and failing containers, wrong kinds) alternate with documents nested
				// exactly at / around the limit (seeded change C15r3-m1 left the root depth counter
				// stuck only after the 'null is not an array' exit)
				doc, dk, forced = []byte(small[r.Intn(len(small))]), "small state-changing", true
			case limitThemed:
				d := []int{9999, 10000, 10001}[r.Intn(3)]
				pat := workload.NestPatterns[r.Intn(12)]
				doc, dk, forced = workload.BuildNest(pat, d, []string{"", "0"}[r.Intn(2)], d), "nest-at-limit", true
			case prevDoc != nil && r.Intn(6) == 0:
				// related documents: the previous document again with every key escaped one more level
				// (so that the new raw key bytes equal nothing seen before but DECODE to the old raw
				// bytes), followed next time by the original again; caches keyed on raw vs decoded names
				// only go wrong on such pairs (seeded change C15r3-m2)
				if rel, ok := escapeKeysOnce(prevDoc); ok {
					doc, dk = rel, "previous document with keys escaped one more level"
				}
			case prevDoc != nil && r.Intn(7) == 0:
				doc, dk = prevDoc, "previous document again"
				// ... or its same-length sibling: every key and string at the same offset with the same raw length
				// and one byte of difference (seeded changes C16r10-m1, C03r10-m1: the reader remembers a SLICE OF
				// THE CALLER'S INPUT as the raw form of the escaped name it unescaped last)
				if index%2 == 1 {
					if sib, ok := siblingSameLength(prevDoc); ok {
						doc, dk = sib, "same-length sibling of the previous document"
						c.Rec.C("same_length_sibling_documents")
					}
				}
			}
			prevDoc = doc
			if index%3 != 0 && len(doc) <= len(inbuf) {
				// documents arrive in one reused input buffer: same address, different bytes
				doc = inbuf[:copy(inbuf, doc)]
				c.Rec.C("calls_on_a_refilled_input_buffer")
			}
			if forced {
				fn = r.Intn(3)
			} else if r.Intn(2) == 0 {
				p := refmodel.SkipWS(doc, 0)
				if p < len(doc) && doc[p] == '{' {
					fn = 1
				} else if p < len(doc) && doc[p] == '[' {
					fn = 2
				}
			}
			cs := &h.Case{Family: "W9", Desc: fmt.Sprintf("reader history %d (seed %d), call %d of %d: %s on a %s document", index, c.Seed, i, n, vrFnNames[fn], dk), Input: doc}
			c.Mark(fmt.Sprintf("C15 history %d call %d %s", index, i, vrFnNames[fn]), doc)
			var v1, v2 interface{}
			var p1, p2 int
			var e1, e2 error
			if c.Guarded(cs, "ValueReader(reused)."+vrFnNames[fn], func() { v1, p1, e1 = vrCall(&vr, fn, doc) }) {
				continue
			}
			var fresh rjson.ValueReader
			if c.Guarded(cs, "ValueReader(fresh)."+vrFnNames[fn], func() { v2, p2, e2 = vrCall(&fresh, fn, doc) }) {
				continue
			}
			c.Rec.Evals(2)
			// a returned error is a returned value too: its text must stay what it was (seeded change
			// C15r8-m2: an error that formats lazily from the member name, which aliases the input or
			// the reader's field-name scratch)
			for ei := range keptErrs {
				if keptErrs[ei].err.Error() != keptErrs[ei].text {
					c.Rec.AddViolation(h.Violation{Property: c.Prop, Oracle: "the text of an error returned earlier changed after a later call on the same reader (or after the caller refilled its input buffer)", Entry: "ValueReader." + vrFnNames[fn], Family: "W9", Desc: cs.Desc,
						InputB64: b64(doc), InputQ: h.Quote(doc), Script: fmt.Sprintf("history=%d call=%d", index, i), Expected: keptErrs[ei].text, Observed: keptErrs[ei].err.Error(),
						Seed: c.Seed, Tier: c.Tier, Key: fmt.Sprintf("C15|errtext|history=%d|call=%d", index, i)})
					keptErrs[ei].text = keptErrs[ei].err.Error()
				}
			}
			if e1 != nil {
				if len(keptErrs) >= 6 {
					keptErrs = keptErrs[1:]
				}
				keptErrs = append(keptErrs, keptErr{e1, strings.Clone(e1.Error())})
				c.Rec.C("returned_errors_kept_under_watch")
			}
			kind := "ok"
			if e1 != nil {
				kind = "error"
				if len(doc) > 9000 {
					kind = "error-on-deep-document"
				}
			}
			c.Rec.SetAdd("previous_outcome->next_call", prev+"->"+vrFnNames[fn]+":"+kind)
			c.Rec.C("outcome_" + kind)
			prev = kind + ":" + vrFnNames[fn]
			script := fmt.Sprintf("history=%d call=%d", index, i)
			if verbose {
				fmt.Printf("call %d %s doc=%s\n reused: p=%d err=%s %s\n fresh:  p=%d err=%s %s\n", i, vrFnNames[fn], h.Quote(doc), p1, errStr(e1), show(v1), p2, errStr(e2), show(v2))
			}
			if (e1 == nil) != (e2 == nil) || errStr(e1) != errStr(e2) || p1 != p2 || !refmodel.EqTree(v1, v2) {
				c.Rec.AddViolation(h.Violation{Property: c.Prop, Oracle: "reused ValueReader result differs from a brand-new reader's", Entry: "ValueReader." + vrFnNames[fn], Family: "W9", Desc: cs.Desc,
					InputB64: b64(doc), InputQ: h.Quote(doc), Script: script, Expected: fmt.Sprintf("(fresh) p=%d err=%s val=%s", p2, errStr(e2), show(v2)), Observed: fmt.Sprintf("(reused) p=%d err=%s val=%s", p1, errStr(e1), show(v1)),
					Seed: c.Seed, Tier: c.Tier, Key: fmt.Sprintf("C15|differs|history=%d|call=%d", index, i)})
			}
			// ... and, for documents of moderate size, the reference model's tree: a brand-new reader is
			// no independent witness for state that lives outside the readers (seeded change C03r5-m2:
			// one shared map behind every empty object, polluted once a caller adds a key to a result)
			if len(doc) <= 8192 {
				if node, mok := refmodel.ParseValue(doc); mok && e1 == nil {
					if want, wok := refmodel.Tree(node, doc); wok && okKind(fn, node.Kind) {
						c.Rec.C("results_also_compared_with_the_model_tree")
						if !refmodel.EqTree(v1, want) {
							c.Rec.AddViolation(h.Violation{Property: c.Prop, Oracle: "reused ValueReader result differs from the document's value tree (and so does a brand-new reader's: state outside the readers)", Entry: "ValueReader." + vrFnNames[fn], Family: "W9", Desc: cs.Desc,
								InputB64: b64(doc), InputQ: h.Quote(doc), Script: script, Expected: show(want), Observed: show(v1),
								Seed: c.Seed, Tier: c.Tier, Key: fmt.Sprintf("C15|model|history=%d|call=%d", index, i)})
						}
					}
				}
			}
			// the caller appends to / fills the spare capacity of what it was just given: neither this
			// result nor any earlier one may change
			if e1 == nil && e2 == nil {
				scribbleSpare(v1)
				c.Rec.C("results_whose_spare_capacity_was_overwritten")
				if !refmodel.EqTree(v1, v2) {
					c.Rec.AddViolation(h.Violation{Property: c.Prop, Oracle: "a result changed when the caller wrote into the spare capacity of its own slices (parts of the result share a backing array)", Entry: "ValueReader." + vrFnNames[fn], Family: "W9", Desc: cs.Desc,
						InputB64: b64(doc), InputQ: h.Quote(doc), Script: script, Expected: show(v2), Observed: show(v1),
						Seed: c.Seed, Tier: c.Tier, Key: fmt.Sprintf("C15|spare|history=%d|call=%d", index, i)})
				}
			}
			// every value returned earlier must still equal the snapshot taken when it was returned
			for ki := range keep {
				c.Rec.C("snapshots_reverified")
				if !refmodel.EqTree(keep[ki].orig, keep[ki].snap) {
					c.Rec.AddViolation(h.Violation{Property: c.Prop, Oracle: "a value returned earlier changed after a later call on the same reader", Entry: "ValueReader." + vrFnNames[fn], Family: "W9", Desc: cs.Desc,
						InputB64: b64(doc), InputQ: h.Quote(doc), Script: script, Expected: fmt.Sprintf("value from %s unchanged: %s", keep[ki].from, show(keep[ki].snap)), Observed: show(keep[ki].orig),
						Seed: c.Seed, Tier: c.Tier, Key: fmt.Sprintf("C15|mutated-by-call|history=%d|call=%d", index, i)})
					keep[ki].snap = refmodel.CopyTree(keep[ki].orig)
				}
			}
			if e1 == nil {
				switch v1.(type) {
				case string:
					// a returned string is immutable for the caller, but its bytes must be its own
					if len(keep) >= 12 {
						keep = keep[1:]
					}
					keep = append(keep, kept{orig: v1, snap: refmodel.CopyTree(v1), from: script})
					c.Rec.C("string_values_kept_under_watch")
				case []interface{}, map[string]interface{}:
					if len(keep) >= 12 {
						keep = keep[1:]
					}
					keep = append(keep, kept{orig: v1, snap: refmodel.CopyTree(v1), from: script})
					c.Rec.C("values_kept_under_watch")
					// now and then the caller modifies the latest result
					if r.Intn(3) == 0 {
						// mostly the latest result, sometimes an older one (its neighbours in memory may be
						// NEWER results)
						li := len(keep) - 1
						if r.Intn(3) == 0 {
							li = r.Intn(len(keep))
						}
						last := &keep[li]
						if _, isStr := last.orig.(string); isStr {
							li = len(keep) - 1
							last = &keep[li]
						}
						scribble(last.orig, 0)
						last.snap = refmodel.CopyTree(last.orig)
						c.Rec.C("caller_modifications_of_latest_result")
						for ki := 0; ki < len(keep); ki++ {
							if ki == li {
								continue
							}
							if !refmodel.EqTree(keep[ki].orig, keep[ki].snap) {
								c.Rec.AddViolation(h.Violation{Property: c.Prop, Oracle: "a value returned earlier changed when the caller modified a later result", Entry: "ValueReader." + vrFnNames[fn], Family: "W9", Desc: cs.Desc,
									InputB64: b64(doc), InputQ: h.Quote(doc), Script: script, Expected: fmt.Sprintf("value from %s unchanged: %s", keep[ki].from, show(keep[ki].snap)), Observed: show(keep[ki].orig),
									Seed: c.Seed, Tier: c.Tier, Key: fmt.Sprintf("C15|mutated-by-caller|history=%d|call=%d", index, i)})
								keep[ki].snap = refmodel.CopyTree(keep[ki].orig)
							}
						}
					}
				}
			}
			if c.Rec.WantSample() && i > 10 && e1 == nil && index%211 == 5 {
				c.Rec.Sample(map[string]interface{}{"history": index, "call": i, "function": vrFnNames[fn], "document": h.Quote(doc), "reused_equals_fresh": e2 == nil && p1 == p2 && refmodel.EqTree(v1, v2), "values_under_watch": len(keep)})
			}
		}
	}
	if c.Replay != nil {
		var idx uint64
		var call int
		fmt.Sscanf(c.Replay.Script, "history=%d call=%d", &idx, &call)
		runHistory(idx, true)
		return
	}
	n := 9000
	if c.Thorough() {
		n = 120000
	}
	for i := 0; i < n; i++ {
		if c.NShards > 1 && i%c.NShards != c.Shard {
			continue
		}
		c.Rec.R.Cases++
		c.Rec.R.Nontrivial++
		runHistory(uint64(i), false)
	}
}

var slowNumbers = []string{"1e400", "-1e999", "5e-324", "4.9406564584124654e-324", "9007199254740993", "9007199254740993.00000001", "2.2250738585072011e-308",
	"1.00000000000000011102230246251565404236316680908203125", "123456789012345678901234567890", "1.7976931348623159e308", "1.7976931348623157e308", "0.1", "12", "-0", "1e23", "8.5e-320"}

func numberThemedDoc(r *workload.Rand) []byte {
	a, b := slowNumbers[r.Intn(len(slowNumbers))], slowNumbers[r.Intn(len(slowNumbers))]
	switch r.Intn(4) {
	case 0:
		return []byte("[" + a + "]")
	case 1:
		return []byte(`{"n":` + a + `,"m":[` + b + `]}`)
	case 2:
		return []byte("[" + a + "," + b + "]")
	default:
		return []byte(a)
	}
}

var sizeWidths = []int{13, 15, 16, 17, 20, 32, 33, 64, 65, 100, 128, 129}

func wideContainer(b []byte, obj bool, n int) []byte {
	if obj {
		b = append(b, '{')
	} else {
		b = append(b, '[')
	}
	for i := 0; i < n; i++ {
		if i > 0 {
			b = append(b, ',')
		}
		if obj {
			b = append(b, fmt.Sprintf(`"m%d":`, i)...)
		}
		b = append(b, byte('0'+i%10))
	}
	if obj {
		return append(b, '}')
	}
	return append(b, ']')
}

func sizeThemedDoc(r *workload.Rand, i int) []byte {
	obj := r.Intn(3) != 0
	strLen := func() int { return 1<<(4+r.Intn(13)) + r.Intn(3) - 1 }
	plain := func(b []byte, n int, fill byte) []byte {
		b = append(b, '"')
		for k := 0; k < n; k++ {
			b = append(b, fill)
		}
		return append(b, '"')
	}
	switch (i + r.Intn(2)) % 6 {
	case 0:
		return wideContainer(nil, obj, sizeWidths[r.Intn(len(sizeWidths))])
	case 1:
		return []byte([]string{"{}", "[]", " { } ", "[ ]", `{"e":{}}`, "[[]]", "[{}]", "null", " null", "null"}[r.Intn(10)]) // null right after a wide container: C13r8-m2
	case 2:
		return []byte([]string{`{"x":1}`, `[1]`, `{"x":1,"y":[2]}`, `["s"]`, `{"k":"v"}`}[r.Intn(5)])
	case 3:
		// wide, empty and small as siblings inside one document
		b := []byte(`{"a":`)
		b = wideContainer(b, obj, sizeWidths[r.Intn(len(sizeWidths))])
		if obj {
			b = append(b, `,"b":{},"c":{"x":1},"d":{}}`...)
		} else {
			b = append(b, `,"b":[],"c":[1],"d":[]}`...)
		}
		return b
	case 4:
		b := []byte("[")
		b = plain(b, strLen(), byte('a'+r.Intn(26)))
		if r.Intn(2) == 0 {
			b = append(b, `,"bbbbbbbb"`...)
		}
		return append(b, ']')
	default:
		if r.Intn(2) == 0 {
			return plain(nil, strLen(), byte('A'+r.Intn(26)))
		}
		return []byte([]string{`"cccccccc"`, `["dddddddd","e"]`, `{"k":"ffffffff"}`}[r.Intn(3)])
	}
}

// escapeKeysOnce rewrites a well-formed document so that every object key K (raw bytes R between
// the quotes) becomes the key whose raw bytes are R with every backslash and quote escaped: the new
// key DECODES to R. Reading the result and then the original presents, at every key position, a
// name whose raw bytes equal the previous name's decoded bytes.
func escapeKeysOnce(d []byte) ([]byte, bool) {
	n, ok := refmodel.ParseValue(d)
	if !ok {
		return nil, false
	}
	type span struct{ a, b int }
	var keys []span
	var walk func(n *refmodel.Node)
	walk = func(n *refmodel.Node) {
		for i, e := range n.Elems {
			if n.Kind == refmodel.KObject {
				keys = append(keys, span{n.Keys[i].RawStart, n.Keys[i].RawEnd})
			}
			walk(e)
		}
	}
	walk(n)
	if len(keys) == 0 {
		return nil, false
	}
	out := make([]byte, 0, len(d)+16)
	last := 0
	changed := false
	for _, k := range keys {
		out = append(out, d[last:k.a]...)
		for _, ch := range d[k.a:k.b] {
			if ch == '\\' || ch == '"' {
				out = append(out, '\\')
				changed = true
			}
			out = append(out, ch)
		}
		last = k.b
	}
	out = append(out, d[last:n.End]...)
	return out, changed
}

// siblingSameLength rewrites a well-formed document into one of exactly the same length and layout in which
// every object key and every string value differs from the original in one place: the last hex digit of its last
// \u escape, else the letter of its last two-character escape, else its last plain letter or digit. Presented at
// the same address right after the original (a refilled read buffer), every name and string then has the same
// offset and the same raw length as the one the reader saw there before, and a different meaning - the situation
// in which a cache that remembers a slice of the caller's input instead of a copy answers with stale text.
func siblingSameLength(d []byte) ([]byte, bool) {
	n, ok := refmodel.ParseValue(d)
	if !ok {
		return nil, false
	}
	out := append([]byte(nil), d...)
	changed := false
	tweak := func(a, b int) {
		// a,b: raw span between the quotes
		lastU, lastE, lastP := -1, -1, -1
		for i := a; i < b; i++ {
			if out[i] == '\\' && i+1 < b {
				if out[i+1] == 'u' && i+5 < b {
					lastU = i
					i += 5
				} else {
					if strings.IndexByte("ntbfr", out[i+1]) >= 0 {
						lastE = i
					}
					i++
				}
				continue
			}
			if c := out[i]; c >= 'a' && c <= 'z' || c >= 'A' && c <= 'Z' || c >= '0' && c <= '9' {
				lastP = i
			}
		}
		switch {
		case lastU >= 0:
			h := &out[lastU+5]
			switch {
			case *h >= '0' && *h <= '9':
				*h = '0' + (*h-'0')^1
			case *h >= 'a' && *h <= 'f':
				*h = 'a' + ((*h-'a')^1)%6
			case *h >= 'A' && *h <= 'F':
				*h = 'A' + ((*h-'A')^1)%6
			default:
				return
			}
			changed = true
		case lastE >= 0:
			out[lastE+1] = "tnfbn"[strings.IndexByte("ntbfr", out[lastE+1])]
			changed = true
		case lastP >= 0:
			c := out[lastP]
			switch {
			case c == 'z' || c == 'Z' || c == '9':
				out[lastP] = c - 1
			default:
				out[lastP] = c + 1
			}
			changed = true
		}
	}
	var walk func(n *refmodel.Node)
	walk = func(n *refmodel.Node) {
		if n.Kind == refmodel.KString {
			tweak(n.Start+1, n.End-1)
		}
		for i, e := range n.Elems {
			if n.Kind == refmodel.KObject {
				tweak(n.Keys[i].RawStart, n.Keys[i].RawEnd)
			}
			walk(e)
		}
	}
	walk(n)
	if !changed {
		return nil, false
	}
	if _, ok := refmodel.ParseValue(out); !ok {
		return nil, false
	}
	return out, true
}
