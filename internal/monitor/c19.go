package monitor

import (
	"fmt"
	"runtime"
	"runtime/debug"
	"strings"

	"github.com/willabides/rjson"

	h "verif/internal/harness"
	"verif/internal/refmodel"
	"verif/internal/workload"
)

type nopArrayHandler struct{}

func (nopArrayHandler) HandleArrayValue(data []byte) (int, error) { return 0, nil }

type nopObjectHandler struct{}

func (nopObjectHandler) HandleObjectValue(key, data []byte) (int, error) { return 0, nil }

// skipping handlers: return the exact end computed by the library itself with a warmed,
// private buffer (does not allocate once warm)
type skipArrayHandler struct{ buf *rjson.Buffer }

func (s skipArrayHandler) HandleArrayValue(data []byte) (int, error) {
	return rjson.SkipValue(data, s.buf)
}

type skipObjectHandler struct{ buf *rjson.Buffer }

func (s skipObjectHandler) HandleObjectValue(key, data []byte) (int, error) {
	return rjson.SkipValue(data, s.buf)
}

const allocK = 20

var msA, msB runtime.MemStats

// mallocs returns the number of heap allocations made by K consecutive calls of f.
func mallocsOf(f func()) uint64 {
	runtime.ReadMemStats(&msA)
	for i := 0; i < allocK; i++ {
		f()
	}
	runtime.ReadMemStats(&msB)
	return msB.Mallocs - msA.Mallocs
}

type allocProbe struct {
	name string
	f    func(d []byte) (func() error, bool) // builds a zero-argument call for input d; ok=false: not applicable
}

// C19: scalar reads, skipping and handler traversal allocate nothing on success.
func RunC19(c *Ctx) {
	debug.SetGCPercent(-1)
	defer debug.SetGCPercent(100)
	c19AfterGC(c) // first, while the worker's heap is still small
	var i64 int64
	var i32 int32
	var in int
	var u64 uint64
	var u32 uint32
	var un uint
	var f64 float64
	var bl bool
	warm := &rjson.Buffer{}
	inner := &rjson.Buffer{}
	var nah rjson.ArrayValueHandler = nopArrayHandler{}
	var noh rjson.ObjectValueHandler = nopObjectHandler{}
	var sah rjson.ArrayValueHandler = skipArrayHandler{inner}
	var soh rjson.ObjectValueHandler = skipObjectHandler{inner}
	dst := make([]byte, 0, 1<<16)
	simple := func(name string, call func(d []byte) error) allocProbe {
		return allocProbe{name, func(d []byte) (func() error, bool) { return func() error { return call(d) }, true }}
	}
	stackInput := func(name string, call func(d []byte) error) allocProbe {
		return allocProbe{name + " (input in the caller's stack frame)", func(d []byte) (func() error, bool) {
			if len(d) > 64 {
				return nil, false
			}
			return func() error { return call(d) }, true
		}}
	}
	probes := map[string][]allocProbe{
		"number": {
			simple("ReadInt64", func(d []byte) error { _, _, e := rjson.ReadInt64(d); return e }),
			simple("ReadInt32", func(d []byte) error { _, _, e := rjson.ReadInt32(d); return e }),
			simple("ReadInt", func(d []byte) error { _, _, e := rjson.ReadInt(d); return e }),
			simple("ReadUint64", func(d []byte) error { _, _, e := rjson.ReadUint64(d); return e }),
			simple("ReadUint32", func(d []byte) error { _, _, e := rjson.ReadUint32(d); return e }),
			simple("ReadUint", func(d []byte) error { _, _, e := rjson.ReadUint(d); return e }),
			simple("ReadFloat64", func(d []byte) error { _, _, e := rjson.ReadFloat64(d); return e }),
			simple("DecodeInt64", func(d []byte) error { _, e := rjson.DecodeInt64(d, &i64); return e }),
			simple("DecodeInt32", func(d []byte) error { _, e := rjson.DecodeInt32(d, &i32); return e }),
			simple("DecodeInt", func(d []byte) error { _, e := rjson.DecodeInt(d, &in); return e }),
			simple("DecodeUint64", func(d []byte) error { _, e := rjson.DecodeUint64(d, &u64); return e }),
			simple("DecodeUint32", func(d []byte) error { _, e := rjson.DecodeUint32(d, &u32); return e }),
			simple("DecodeUint", func(d []byte) error { _, e := rjson.DecodeUint(d, &un); return e }),
			simple("DecodeFloat64", func(d []byte) error { _, e := rjson.DecodeFloat64(d, &f64); return e }),
			// the input lives in the CALLER'S STACK FRAME (a local array, or []byte(shortString)): if a
			// reader lets its data parameter escape, every such caller pays one heap allocation per call
			// although results are unchanged (seeded change C19r7-m1: an error message that formats
			// data[:n], on a path that is never taken here, made ReadFloat64's input escape). The calls
			// are written out one by one: escape analysis does not see through a function value.
			stackInput("ReadFloat64", func(d []byte) error {
				var a [64]byte
				_, _, e := rjson.ReadFloat64(a[:copy(a[:], d)])
				return e
			}),
			stackInput("DecodeFloat64", func(d []byte) error {
				var a [64]byte
				var f float64
				_, e := rjson.DecodeFloat64(a[:copy(a[:], d)], &f)
				return e
			}),
			stackInput("ReadInt64", func(d []byte) error {
				var a [64]byte
				_, _, e := rjson.ReadInt64(a[:copy(a[:], d)])
				return e
			}),
			stackInput("ReadUint64", func(d []byte) error {
				var a [64]byte
				_, _, e := rjson.ReadUint64(a[:copy(a[:], d)])
				return e
			}),
			stackInput("ReadInt32", func(d []byte) error {
				var a [64]byte
				_, _, e := rjson.ReadInt32(a[:copy(a[:], d)])
				return e
			}),
			stackInput("DecodeUint", func(d []byte) error {
				var a [64]byte
				var u uint
				_, e := rjson.DecodeUint(a[:copy(a[:], d)], &u)
				return e
			}),
		},
		"literal": {
			stackInput("ReadBool", func(d []byte) error {
				var a [64]byte
				_, _, e := rjson.ReadBool(a[:copy(a[:], d)])
				return e
			}),
			stackInput("ReadNull", func(d []byte) error {
				var a [64]byte
				_, e := rjson.ReadNull(a[:copy(a[:], d)])
				return e
			}),
			stackInput("NextTokenType", func(d []byte) error {
				var a [64]byte
				_, _, e := rjson.NextTokenType(a[:copy(a[:], d)])
				return e
			}),
			simple("ReadBool", func(d []byte) error { _, _, e := rjson.ReadBool(d); return e }),
			simple("ReadNull", func(d []byte) error { _, e := rjson.ReadNull(d); return e }),
			simple("DecodeBool", func(d []byte) error { _, e := rjson.DecodeBool(d, &bl); return e }),
			simple("DecodeFloat64(null)", func(d []byte) error { _, e := rjson.DecodeFloat64(d, &f64); return e }),
			simple("DecodeInt64(null)", func(d []byte) error { _, e := rjson.DecodeInt64(d, &i64); return e }),
			simple("DecodeInt32(null)", func(d []byte) error { _, e := rjson.DecodeInt32(d, &i32); return e }),
			simple("DecodeInt(null)", func(d []byte) error { _, e := rjson.DecodeInt(d, &in); return e }),
			simple("DecodeUint64(null)", func(d []byte) error { _, e := rjson.DecodeUint64(d, &u64); return e }),
			simple("DecodeUint32(null)", func(d []byte) error { _, e := rjson.DecodeUint32(d, &u32); return e }),
			simple("DecodeUint(null)", func(d []byte) error { _, e := rjson.DecodeUint(d, &un); return e }),
		},
		"token": {
			simple("NextToken", func(d []byte) error { _, _, e := rjson.NextToken(d); return e }),
			simple("NextTokenType", func(d []byte) error { _, _, e := rjson.NextTokenType(d); return e }),
		},
		"document": {
			simple("SkipValue", func(d []byte) error { _, e := rjson.SkipValue(d, warm); return e }),
			simple("SkipValueFast", func(d []byte) error { _, e := rjson.SkipValueFast(d, warm); return e }),
			simple("Valid", func(d []byte) error {
				if !rjson.Valid(d, warm) {
					return errHandlerAbort
				}
				return nil
			}),
			simple("HandleArrayValues(declining handler)", func(d []byte) error { _, e := rjson.HandleArrayValues(d, nah, warm); return e }),
			simple("HandleObjectValues(declining handler)", func(d []byte) error { _, e := rjson.HandleObjectValues(d, noh, warm); return e }),
			simple("HandleArrayValues(skipping handler)", func(d []byte) error { _, e := rjson.HandleArrayValues(d, sah, warm); return e }),
			simple("HandleObjectValues(skipping handler)", func(d []byte) error { _, e := rjson.HandleObjectValues(d, soh, warm); return e }),
			// the handler skips with the TRAVERSAL'S OWN Buffer (the documented re-entrant sharing); the
			// Buffer has been used on this very document by the SkipValue probe above (seeded change
			// C19r6-m1: the stack detached from the Buffer while a traversal runs)
			simple("HandleArrayValues(skipping handler sharing the traversal's Buffer)", func(d []byte) error {
				_, e := rjson.HandleArrayValues(d, skipArrayHandler{warm}, warm)
				return e
			}),
			simple("HandleObjectValues(skipping handler sharing the traversal's Buffer)", func(d []byte) error {
				_, e := rjson.HandleObjectValues(d, skipObjectHandler{warm}, warm)
				return e
			}),
		},
		"string": {
			{"ReadStringBytes", func(d []byte) (func() error, bool) {
				if len(d) > cap(dst) {
					dst = make([]byte, 0, 2*len(d))
				}
				// spare capacity of exactly the input length
				buf := dst[:0:len(d)]
				return func() error { _, _, e := rjson.ReadStringBytes(d, buf); return e }, true
			}},
			{"ReadStringBytes(non-empty dst)", func(d []byte) (func() error, bool) {
				if len(d)+3 > cap(dst) {
					dst = make([]byte, 0, 2*len(d)+3)
				}
				buf := dst[: 3 : len(d)+3]
				return func() error { _, _, e := rjson.ReadStringBytes(d, buf); return e }, true
			}},
			{"ReadStringBytes(roomy dst)", func(d []byte) (func() error, bool) {
				// more spare capacity than required, at an odd offset
				big := make([]byte, 5, 3*len(d)+64)
				return func() error { _, _, e := rjson.ReadStringBytes(d, big); return e }, true
			}},
			{"UnescapeStringContent(non-empty dst)", func(d []byte) (func() error, bool) {
				p0 := refmodel.SkipWS(d, 0)
				_, end, ok := refmodel.ScanString(d, p0)
				if !ok {
					return nil, false
				}
				content := d[p0+1 : end-1]
				// three bytes already in the destination, spare capacity exactly the input length
				buf := make([]byte, 3, 3+len(content))
				return func() error { _, _, e := rjson.UnescapeStringContent(content, buf); return e }, true
			}},
			{"UnescapeStringContent", func(d []byte) (func() error, bool) {
				p0 := refmodel.SkipWS(d, 0)
				_, end, ok := refmodel.ScanString(d, p0)
				if !ok {
					return nil, false
				}
				content := d[p0+1 : end-1]
				if len(content) > cap(dst) {
					dst = make([]byte, 0, 2*len(d))
				}
				buf := dst[:0:len(content)]
				return func() error { _, _, e := rjson.UnescapeStringContent(content, buf); return e }, true
			}},
			// destination and input in ONE buffer (unescape in place; compacting a record inside its
			// buffer): the destination's spare capacity is exactly the input, which is "at least the
			// input length" (seeded change C19r5-m2: a defensive copy when the write position equals
			// the start of the input). The content is restored before every call.
			{"UnescapeStringContent(in place, dst = data[:0])", func(d []byte) (func() error, bool) {
				p0 := refmodel.SkipWS(d, 0)
				_, end, ok := refmodel.ScanString(d, p0)
				if !ok {
					return nil, false
				}
				orig := d[p0+1 : end-1]
				work := make([]byte, len(orig))
				return func() error { copy(work, orig); _, _, e := rjson.UnescapeStringContent(work, work[:0]); return e }, true
			}},
			{"UnescapeStringContent(in place, dst = buf[:3], data = buf[3:])", func(d []byte) (func() error, bool) {
				p0 := refmodel.SkipWS(d, 0)
				_, end, ok := refmodel.ScanString(d, p0)
				if !ok {
					return nil, false
				}
				orig := d[p0+1 : end-1]
				work := make([]byte, 3+len(orig))
				return func() error {
					copy(work[3:], orig)
					_, _, e := rjson.UnescapeStringContent(work[3:], work[:3])
					return e
				}, true
			}},
		},
	}
	measure := func(group string, cs *h.Case) {
		d := cs.Input
		for _, pb := range probes[group] {
			call, ok := pb.f(d)
			if !ok {
				continue
			}
			var err error
			if c.Guarded(cs, pb.name, func() { err = call() }) { // warm-up (also warms the Buffer on this very document)
				continue
			}
			if err != nil {
				c.Rec.C("not_successful_skipped")
				continue
			}
			call()
			c.Rec.Evals(2)
			var deltas [3]uint64
			always := true
			for k := range deltas {
				deltas[k] = mallocsOf(func() { call() })
				c.Rec.Evals(allocK)
				if deltas[k] < allocK {
					always = false
				}
			}
			c.Rec.C("zero_allocation_measurements")
			c.Rec.R.Counters["measured_"+apiBase(pb.name)]++
			if deltas[0]+deltas[1]+deltas[2] > 0 {
				c.Rec.C("measurements_with_sporadic_runtime_allocations")
			}
			if always {
				c.Rec.Violate(cs, "every successful call allocates", pb.name, "0 heap allocations per call", fmt.Sprintf("%d, %d, %d allocations in three runs of %d calls", deltas[0], deltas[1], deltas[2], allocK))
			}
			if c.Rec.WantSample() && c.Rec.R.Cases%701 == 1 && pb.name != "NextToken" {
				c.Rec.Sample(map[string]interface{}{"function": pb.name, "input": h.Quote(d), "how": cs.Describe(), "mallocs_in_3_runs_of_20_calls": fmt.Sprint(deltas)})
			}
		}
	}
	if c.Replay != nil {
		cs := &h.Case{Family: c.Replay.Family, Desc: c.Replay.Desc, Input: c.Replay.Input()}
		for g := range probes {
			measure(g, cs)
		}
		return
	}
	group := ""
	sink := func(cs *h.Case) {
		if !c.Mine(cs.Input) {
			return
		}
		c.Rec.R.Cases++
		c.Rec.R.Nontrivial++
		c.Rec.R.Counters["family_"+cs.Family]++
		c.Mark("C19 "+cs.Family, cs.Input)
		cp := *cs
		cp.Input = append([]byte(nil), cs.Input...)
		measure(group, &cp)
		if c.Rec.R.Cases%2000 == 0 {
			runtime.GC()
		}
	}
	th := c.Thorough()
	// numbers on every conversion path
	group = "number"
	nfl, perRow, win := 600, 2, 3
	if th {
		nfl, perRow, win = 8000, 20, 40
	}
	workload.W6Generic(nfl, false, c.Seed, sink)
	workload.W6Rows(perRow, c.Seed, sink)
	workload.W6Special(sink)
	workload.W6Exponents(2, c.Seed, sink)
	workload.W6Ints(win, 2000, c.Seed, func(cs *h.Case) {
		if cs.P[0]%7 == 0 || th {
			sink(cs)
		}
	})
	group = "literal"
	lit := &h.Case{Family: "literals"}
	for _, s := range []string{"true", "false", "null", " true", "\n\tfalse ", " null,", "true]", "nullx"} {
		lit.Input = []byte(s)
		lit.Desc = "literal"
		sink(lit)
	}
	group = "token"
	tok := &h.Case{Family: "tokens"}
	for b := 0; b < 256; b++ {
		for _, pre := range []string{"", " ", "\n\t\r "} {
			tok.Input = append([]byte(pre), byte(b))
			tok.Desc = "token byte"
			sink(tok)
		}
	}
	group = "string"
	ns := 3000
	if th {
		ns = 60000
	}
	workload.W7Generated(ns, c.Seed, sink)
	workload.W7Surrogates(0, func(cs *h.Case) {
		if cs.P[0]%16 == 0 || th {
			sink(cs)
		}
	})
	for _, s := range workload.StringTemplates {
		lit.Input = []byte(s)
		lit.Family = "string-templates"
		lit.Desc = "string template"
		sink(lit)
	}
	workload.W5([]int{3000, 70000}, func(cs *h.Case) {
		if len(cs.Input) > 0 && cs.Input[0] == '"' {
			sink(cs)
		}
	})
	group = "document"
	nd := 1500
	if th {
		nd = 40000
	}
	doc := &h.Case{Family: "W3valid"}
	for i := 0; i < nd; i++ {
		doc.Input = workload.W3Valid(c.Seed, uint64(i))
		doc.Desc = fmt.Sprintf("W3Valid(seed=%d,index=%d)", c.Seed, i)
		sink(doc)
	}
	// every nesting depth 1..300 and the neighbourhoods of larger powers of two: stack growth in
	// chunks can go wrong exactly at a chunk boundary (seeded change C19r3-m1: depths 64, 128, ...)
	sweep := []int{}
	for dp := 1; dp <= 300; dp++ {
		sweep = append(sweep, dp)
	}
	for _, pw := range []int{512, 1024, 2048, 4096, 8192} {
		sweep = append(sweep, pw-1, pw, pw+1)
	}
	workload.W4(sweep, [][]int{{0}, {2}, {0, 2}, {1, 3}}, []string{"", "0"}, func(cs *h.Case) {
		if cs.P[3] == 0 {
			sink(cs)
		}
	})
	workload.W4([]int{3, 100, 9999, 10000}, workload.NestPatterns, []string{"", "0", `"s"`}, func(cs *h.Case) {
		if cs.P[3] == 0 || cs.P[3] == 4 { // closed variants
			sink(cs)
		}
	})
	workload.W5([]int{3000, 70000}, func(cs *h.Case) {
		if !strings.HasPrefix(cs.Describe(), "big deep") {
			sink(cs)
		}
	})
	for _, s := range workload.SeedsCached() {
		doc.Family = "W1seeds"
		doc.Input = []byte(s)
		doc.Desc = "W1 seed"
		sink(doc)
	}
	c19Histories(c)
}

type failAtHandler struct {
	k, n    int
	garbage int
	err     error
}

func (f *failAtHandler) answer() (int, error) {
	i := f.n
	f.n++
	if i == f.k {
		return f.garbage, f.err
	}
	return 0, nil
}
func (f *failAtHandler) HandleArrayValue(d []byte) (int, error)     { return f.answer() }
func (f *failAtHandler) HandleObjectValue(k, d []byte) (int, error) { return f.answer() }

type reentrantSkipHandler struct{ buf *rjson.Buffer }

func (r reentrantSkipHandler) HandleArrayValue(d []byte) (int, error) {
	return rjson.SkipValue(d, r.buf)
}
func (r reentrantSkipHandler) HandleObjectValue(k, d []byte) (int, error) {
	return rjson.SkipValueFast(d, r.buf)
}

// c19Histories: the Buffer precondition of C19 is "already used on a document at least as deeply
// nested" - whatever happened to the Buffer in between. After a warm-up call, the Buffer goes
// through a disturbance (a traversal stopped by a handler error on a scalar / string / container
// member, a garbage offset, a malformed or truncated document, another function, re-entrant
// sharing) and then ONE successful call is measured on its own. The whole three-step history is
// repeated three times; a violation needs an allocation in the measured call every time.
// (Seeded change C19r2-m1 dropped the grown stack on one error exit: the next successful call
// re-grew it once, which a loop of identical calls can never see.)
func c19Histories(c *Ctx) {
	type target struct {
		name string
		call func(d []byte, b *rjson.Buffer) error
	}
	var nah rjson.ArrayValueHandler = nopArrayHandler{}
	var noh rjson.ObjectValueHandler = nopObjectHandler{}
	targets := []target{
		{"SkipValue", func(d []byte, b *rjson.Buffer) error { _, e := rjson.SkipValue(d, b); return e }},
		{"SkipValueFast", func(d []byte, b *rjson.Buffer) error { _, e := rjson.SkipValueFast(d, b); return e }},
		{"Valid", func(d []byte, b *rjson.Buffer) error {
			if !rjson.Valid(d, b) {
				return errHandlerAbort
			}
			return nil
		}},
		{"HandleArrayValues", func(d []byte, b *rjson.Buffer) error { _, e := rjson.HandleArrayValues(d, nah, b); return e }},
		{"HandleObjectValues", func(d []byte, b *rjson.Buffer) error { _, e := rjson.HandleObjectValues(d, noh, b); return e }},
	}
	type disturbance struct {
		name string
		run  func(d []byte, b *rjson.Buffer)
	}
	var dist []disturbance
	for k := 0; k < 4; k++ {
		k := k
		dist = append(dist, disturbance{fmt.Sprintf("traversal stopped by a handler error at call %d", k), func(d []byte, b *rjson.Buffer) {
			f := &failAtHandler{k: k, err: errHandlerAbort}
			rjson.HandleArrayValues(d, f, b)
			f.n = 0
			rjson.HandleObjectValues(d, f, b)
		}})
	}
	for _, g := range []int{-1, off40, 1} {
		g := g
		dist = append(dist, disturbance{fmt.Sprintf("handler returning offset %d at call 1", g), func(d []byte, b *rjson.Buffer) {
			f := &failAtHandler{k: 1, garbage: g}
			rjson.HandleArrayValues(d, f, b)
			f.n = 0
			rjson.HandleObjectValues(d, f, b)
		}})
	}
	dist = append(dist,
		disturbance{"truncated copy of the document through all five functions", func(d []byte, b *rjson.Buffer) {
			t := d[:len(d)*2/3]
			rjson.SkipValue(t, b)
			rjson.SkipValueFast(t, b)
			rjson.Valid(t, b)
			rjson.HandleArrayValues(t, nah, b)
			rjson.HandleObjectValues(t, noh, b)
		}},
		disturbance{"document with a wrong closer and with trailing garbage", func(d []byte, b *rjson.Buffer) {
			t := append(append([]byte(nil), d...), ']', 'x')
			rjson.Valid(t, b)
			if len(t) > 3 {
				t[len(t)-3] = '|'
			}
			rjson.SkipValue(t, b)
			rjson.HandleArrayValues(t, nah, b)
			rjson.HandleObjectValues(t, noh, b)
		}},
		disturbance{"the other four functions on the same document", func(d []byte, b *rjson.Buffer) {
			rjson.SkipValueFast(d, b)
			rjson.HandleObjectValues(d, noh, b)
			rjson.Valid(d, b)
			rjson.HandleArrayValues(d, nah, b)
			rjson.SkipValue(d, b)
		}},
		disturbance{"re-entrant sharing: handlers skip members with the enclosing call's Buffer", func(d []byte, b *rjson.Buffer) {
			rjson.HandleArrayValues(d, reentrantSkipHandler{b}, b)
			rjson.HandleObjectValues(d, reentrantSkipHandler{b}, b)
		}},
		disturbance{"a shallower and a malformed shallower document", func(d []byte, b *rjson.Buffer) {
			rjson.Valid([]byte(`[1,{"a":[true]}]`), b)
			rjson.SkipValue([]byte(`[1,{"a":[tru]}]`), b)
			rjson.HandleObjectValues([]byte(`{"a":{"b":[1,2,}}`), noh, b)
		}},
	)
	var docs [][]byte
	for i := 0; i < 400 && len(docs) < 120; i++ {
		d := workload.W3Valid(c.Seed, uint64(i)+7000)
		if len(d) > 12 && (d[0] == '[' || d[0] == '{') {
			docs = append(docs, d)
		}
	}
	for _, dp := range []int{2, 5, 40, 700, 6000} {
		for _, pat := range [][]int{{0}, {2}, {0, 2}, {1, 3}} {
			docs = append(docs, workload.BuildNest(pat, dp, "0", dp))
		}
	}
	docs = append(docs, []byte(`{"id":7,"tags":["a","b"],"n":{"x":[1,2,{"y":null}]},"z":true}`), []byte(`[1,{"a":1},[2,[3]],"s",null]`))
	cs := &h.Case{Family: "C19-history"}
	for di, d := range docs {
		if c.NShards > 1 && di%c.NShards != c.Shard {
			continue
		}
		cs.Input = d
		c.Mark("C19 history", d)
		for _, tg := range targets {
			probe := &rjson.Buffer{}
			if tg.call(d, probe) != nil {
				continue // this function does not succeed on this document: outside the property
			}
			for _, ds := range dist {
				var deltas [3]uint64
				always := true
				for rep := 0; rep < 3; rep++ {
					b := &rjson.Buffer{}
					tg.call(d, b) // warm-up on this very document
					tg.call(d, b)
					ds.run(d, b)
					runtime.ReadMemStats(&msA)
					err := tg.call(d, b)
					runtime.ReadMemStats(&msB)
					deltas[rep] = msB.Mallocs - msA.Mallocs
					c.Rec.Evals(4)
					if err != nil || deltas[rep] == 0 {
						always = false
					}
				}
				c.Rec.C("history_measurements")
				c.Rec.R.Cases++
				c.Rec.R.Nontrivial++
				if always {
					cs.Desc = fmt.Sprintf("warm-up, then %s, then one measured %s call", ds.name, tg.name)
					c.Rec.AddViolation(h.Violation{Property: c.Prop, Oracle: "a successful call allocates after the warmed Buffer went through another call", Entry: tg.name, Family: cs.Family, Desc: cs.Desc,
						InputB64: b64(d), InputQ: h.Quote(d), Script: ds.name, Expected: "0 heap allocations in the measured call", Observed: fmt.Sprintf("%d, %d, %d allocations in three repetitions of the history", deltas[0], deltas[1], deltas[2]), Seed: c.Seed, Tier: c.Tier})
				}
			}
		}
	}
}

// c19AfterGC: one measured call right after two garbage collections, which empty every sync.Pool:
// scratch that a function keeps in a package-level pool is then allocated again, on a call that
// succeeds (seeded change C19r8-m1: the 824-byte decimal of the slow float path moved into a pool;
// testing.AllocsPerRun and every warmed-up measurement still report 0).
func c19AfterGC(c *Ctx) {
	if c.NShards > 1 && c.Shard != 0 {
		return
	}
	if c.Replay != nil {
		return
	}
	nums := []string{"1", "-0", "12345678901234567", "1.5e300", "9007199254740993", "9007199254740993.00000001", "4.9406564584124654e-324", "2.2250738585072011e-308",
		"1.00000000000000011102230246251565404236316680908203125", "179769313486231580793728971405303415079934132710037826936173778980444968292764750946649017977587207096330286416692887910946555547851940402630657488671505820681908902000708383676273854845817711531764475730270069855571366959622842914819860834936475292719074168444365510704342711559699508093042880177904174497791", "123456789012345678901234567890", "0.000000000000000000000000000000000000000000001e-300"}
	docs := []string{`[1,{"a":[true,null]},"s\n"]`, `{"k":{"n":[1.5,2e10,[[]]]},"z":"abc"}`}
	strs := []string{`"plain"`, `"esc\n\u00e9\ud83d\ude00"`, `"\ud800"`}
	var f float64
	var i64 int64
	warm := &rjson.Buffer{}
	dst := make([]byte, 0, 256)
	type tcall struct {
		name string
		ins  []string
		f    func(d []byte) error
	}
	calls := []tcall{
		{"ReadFloat64", nums, func(d []byte) error { _, _, e := rjson.ReadFloat64(d); return e }},
		{"DecodeFloat64", nums, func(d []byte) error { _, e := rjson.DecodeFloat64(d, &f); return e }},
		{"ReadInt64", nums[:3], func(d []byte) error { _, _, e := rjson.ReadInt64(d); return e }},
		{"DecodeInt64", nums[:3], func(d []byte) error { _, e := rjson.DecodeInt64(d, &i64); return e }},
		{"ReadUint64", nums[:1], func(d []byte) error { _, _, e := rjson.ReadUint64(d); return e }},
		{"SkipValue", docs, func(d []byte) error { _, e := rjson.SkipValue(d, warm); return e }},
		{"SkipValueFast", docs, func(d []byte) error { _, e := rjson.SkipValueFast(d, warm); return e }},
		{"Valid", docs, func(d []byte) error {
			if !rjson.Valid(d, warm) {
				return errHandlerAbort
			}
			return nil
		}},
		{"HandleArrayValues(declining handler)", docs[:1], func(d []byte) error { _, e := rjson.HandleArrayValues(d, nopArrayHandler{}, warm); return e }},
		{"HandleObjectValues(skipping handler sharing the Buffer)", docs[1:], func(d []byte) error {
			_, e := rjson.HandleObjectValues(d, skipObjectHandler{warm}, warm)
			return e
		}},
		{"ReadStringBytes", strs, func(d []byte) error { _, _, e := rjson.ReadStringBytes(d, dst[:0]); return e }},
		{"UnescapeStringContent", strs, func(d []byte) error { _, _, e := rjson.UnescapeStringContent(d[1:len(d)-1], dst[:0]); return e }},
		{"NextTokenType", docs, func(d []byte) error { _, _, e := rjson.NextTokenType(d); return e }},
	}
	cs := &h.Case{Family: "C19-after-gc"}
	for _, tc := range calls {
		for _, in := range tc.ins {
			d := []byte(in)
			if tc.f(d) != nil {
				continue
			}
			var deltas [3]uint64
			always := true
			for rep := 0; rep < 3; rep++ {
				tc.f(d)
				runtime.GC()
				runtime.GC()
				runtime.ReadMemStats(&msA)
				err := tc.f(d)
				runtime.ReadMemStats(&msB)
				deltas[rep] = msB.Mallocs - msA.Mallocs
				c.Rec.Evals(2)
				if err != nil || deltas[rep] == 0 {
					always = false
				}
			}
			c.Rec.C("measurements_right_after_two_garbage_collections")
			c.Rec.R.Cases++
			c.Rec.R.Nontrivial++
			if always {
				cs.Input = d
				cs.Desc = "warm-up call, two garbage collections, then one measured " + tc.name + " call"
				c.Rec.AddViolation(h.Violation{Property: c.Prop, Oracle: "a successful call allocates right after garbage collections (scratch kept in a pool that the collector empties)", Entry: tc.name, Family: cs.Family, Desc: cs.Desc,
					InputB64: b64(d), InputQ: h.Quote(d), Script: "after-gc", Expected: "0 heap allocations in the measured call", Observed: fmt.Sprintf("%d, %d, %d allocations in three repetitions", deltas[0], deltas[1], deltas[2]), Seed: c.Seed, Tier: c.Tier})
			}
		}
	}
}
