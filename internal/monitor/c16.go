package monitor

import (
	"bytes"
	"fmt"
	"strings"

	"github.com/willabides/rjson"

	h "verif/internal/harness"
	"verif/internal/refmodel"
	"verif/internal/workload"
)

// guardRunner batches cases into read-only guard pages and runs fn on each.
type guardRunner struct {
	c     *Ctx
	guard *h.Guard
	gb    *h.GuardBatch
	batch []h.Case
	fn    func(cs *h.Case)
	tag   string
}

func newGuardRunner(c *Ctx, size int, tag string, fn func(cs *h.Case)) *guardRunner {
	g, err := h.NewGuard(size)
	if err != nil {
		c.Rec.R.Notes = append(c.Rec.R.Notes, "guard pages unavailable: "+err.Error())
		g = nil
	}
	return &guardRunner{c: c, guard: g, fn: fn, tag: tag}
}

func (gr *guardRunner) flush() {
	if gr.gb != nil {
		gr.gb.Seal()
	}
	for i := range gr.batch {
		cs := &gr.batch[i]
		gr.c.Mark(gr.tag+" "+cs.Family, cs.Input)
		gr.fn(cs)
	}
	gr.batch = gr.batch[:0]
	gr.gb = nil
}

func (gr *guardRunner) add(cs *h.Case) {
	cp := *cs
	cp.Desc = cs.Describe()
	cp.DescFn = nil
	if gr.guard != nil {
		if gr.gb == nil {
			gr.gb = gr.guard.Begin()
		}
		in, ok := gr.gb.Add(cs.Input)
		if !ok {
			gr.flush()
			gr.gb = gr.guard.Begin()
			in, ok = gr.gb.Add(cs.Input)
		}
		if ok {
			cp.Input = in
			gr.c.Rec.C("inputs_in_read_only_pages")
		} else {
			cp.Input = append([]byte(nil), cs.Input...)
		}
	} else {
		cp.Input = append([]byte(nil), cs.Input...)
	}
	gr.batch = append(gr.batch, cp)
	if len(gr.batch) >= 4096 {
		gr.flush()
	}
}

func (gr *guardRunner) close() {
	gr.flush()
	if gr.guard != nil {
		gr.guard.Close()
	}
}

func garbage(r *workload.Rand, n int) []byte {
	b := make([]byte, n)
	for i := range b {
		b[i] = byte(r.Intn(256))
	}
	return b
}

// dstGrid builds destinations of assorted (len, cap) with random contents and random garbage
// in the spare capacity.
func dstGrid(r *workload.Rand, need int) [][]byte {
	var out [][]byte
	for _, l := range []int{0, 1, 3, 8, 17} {
		for _, extra := range []int{0, 1, 2, need - 1, need, need + 1, 2*need + 5} {
			if extra < 0 {
				continue
			}
			full := garbage(r, l+extra)
			out = append(out, full[:l])
		}
	}
	return out
}

// C16: inputs never modified; append semantics; scratch contents irrelevant; outputs own their memory.
var (
	canaryDoc = []byte(`[{"a":1},{},{"b":2},{}]`)
	canaryObj = []byte(` {} `)
)

func RunC16(c *Ctx) {
	var longBuf rjson.Buffer
	var longVR, histVR rjson.ValueReader
	deepBuf := deepDirtyBuffer()
	otherDocs := [][]byte{[]byte(`{"zz":["overwrite","me",{"k":"\n\t"}],"y":"\u00e9"}`), []byte(`["a","b","c","d","e","f","g","h"]`), []byte(`{"a":{"a":{"a":"deep"}}}`)}
	process := func(cs *h.Case) {
		d := cs.Input // read-only
		r := workload.NewRand(c.Seed, h.Hash(d))
		// A. every function on the read-only input (a store faults and is caught by Guarded)
		var fresh rjson.Buffer
		for _, call := range allAPI {
			call := call
			c.Guarded(cs, call.name, func() {
				call.f(d, nil, &fresh, &longBuf, &longVR)
				c.Rec.Evals(1)
			})
		}
		me := &memberEnds{doc: d, m: map[int]int{}}
		for kind := 0; kind < 2; kind++ {
			for prog := 0; prog < 2; prog++ {
				pr := &probe{doc: d, limit: 4096}
				pr.answer = func(i, off int, data []byte) (int, error) {
					if prog == 0 {
						return 0, nil
					}
					if e := me.end(off); e >= 0 {
						return e, nil
					}
					return 0, nil
				}
				c.Guarded(cs, kindName[kind], func() { traverse(kind, d, pr, &longBuf); c.Rec.Evals(1) })
			}
		}
		c.Rec.C("inputs_checked_for_writes")
		// scratch Buffers are scratch buffers too: results must not depend on their prior contents
		// (nil vs a Buffer grown and left dirty by deep handler traversals vs the long-lived one)
		c.Guarded(cs, "buffer-taking functions (Buffer contents irrelevant)", func() {
			p1, e1 := rjson.SkipValue(d, nil)
			p2, e2 := rjson.SkipValue(d, deepBuf)
			p3, e3 := rjson.SkipValue(d, &longBuf)
			f1, g1 := rjson.SkipValueFast(d, nil)
			f2, g2 := rjson.SkipValueFast(d, deepBuf)
			f3, g3 := rjson.SkipValueFast(d, &longBuf)
			v1, v2, v3 := rjson.Valid(d, nil), rjson.Valid(d, deepBuf), rjson.Valid(d, &longBuf)
			c.Rec.Evals(9)
			c.Rec.C("buffer_independence_comparisons")
			if p1 != p2 || p1 != p3 || (e1 == nil) != (e2 == nil) || (e1 == nil) != (e3 == nil) {
				c.Rec.Violate(cs, "SkipValue result depends on the scratch Buffer's prior contents", "SkipValue", fmt.Sprintf("(nil) p=%d err=%s", p1, errStr(e1)), fmt.Sprintf("(dirty) p=%d err=%s / (long-lived) p=%d err=%s", p2, errStr(e2), p3, errStr(e3)))
			}
			if f1 != f2 || f1 != f3 || (g1 == nil) != (g2 == nil) || (g1 == nil) != (g3 == nil) {
				c.Rec.Violate(cs, "SkipValueFast result depends on the scratch Buffer's prior contents", "SkipValueFast", fmt.Sprintf("(nil) p=%d err=%s", f1, errStr(g1)), fmt.Sprintf("(dirty) p=%d err=%s / (long-lived) p=%d err=%s", f2, errStr(g2), f3, errStr(g3)))
			}
			if v1 != v2 || v1 != v3 {
				c.Rec.Violate(cs, "Valid result depends on the scratch Buffer's prior contents", "Valid", fmt.Sprint(v1), fmt.Sprint(v2, v3))
			}
			// the two traversals with a declining handler (the machine walks every member itself and so
			// uses the Buffer's stack most): nil vs a never-used Buffer vs dirty Buffers
			for kind := 0; kind < 2; kind++ {
				var res [4]string
				var fresh rjson.Buffer
				for bi, b := range []*rjson.Buffer{nil, &fresh, deepBuf, &longBuf} {
					n := 0
					var p int
					var e error
					if kind == 0 {
						p, e = rjson.HandleArrayValues(d, rjson.ArrayValueHandlerFunc(func([]byte) (int, error) { n++; return 0, nil }), b)
					} else {
						p, e = rjson.HandleObjectValues(d, rjson.ObjectValueHandlerFunc(func(k, v []byte) (int, error) { n++; return 0, nil }), b)
					}
					res[bi] = fmt.Sprintf("p=%d ok=%v calls=%d", p, e == nil, n)
				}
				c.Rec.Evals(4)
				if res[0] != res[1] || res[0] != res[2] || res[0] != res[3] {
					c.Rec.Violate(cs, kindName[kind]+" result depends on the scratch Buffer's prior contents", kindName[kind], "(nil) "+res[0], fmt.Sprintf("(fresh) %s / (dirty) %s / (long-lived) %s", res[1], res[2], res[3]))
				}
			}
		})

		p0 := refmodel.SkipWS(d, 0)
		ws, wend, wok := refmodel.ScanString(d, p0)
		// B. append semantics
		if wok {
			content := d[p0+1 : wend-1]
			c.Guarded(cs, "ReadStringBytes/UnescapeStringContent (append semantics)", func() {
				base, _, berr := rjson.ReadStringBytes(d, nil)
				ubase, _, uerr := rjson.UnescapeStringContent(content, nil)
				c.Rec.Evals(2)
				// outputs own their memory: with no destination the result may not be a window into the input
				// (not even an empty one with capacity: the next append would write into the document;
				// seeded change C18r3-m1)
				if h.Overlaps(base, d) {
					c.Rec.Violate(cs, "ReadStringBytes(nil destination) returned memory shared with the input", "ReadStringBytes", "fresh memory", fmt.Sprintf("len=%d cap=%d", len(base), cap(base)))
				}
				if h.Overlaps(ubase, d) {
					c.Rec.Violate(cs, "UnescapeStringContent(nil destination) returned memory shared with the input", "UnescapeStringContent", "fresh memory", fmt.Sprintf("len=%d cap=%d", len(ubase), cap(ubase)))
				}
				c.Rec.C("result_vs_input_aliasing_checks")
				if berr != nil || uerr != nil {
					return // C06 reports this
				}
				for _, dst := range dstGrid(r, len(ws)) {
					prefix := append([]byte(nil), dst...)
					got, _, err := rjson.ReadStringBytes(d, dst)
					c.Rec.Evals(1)
					c.Rec.C("append_semantics_calls")
					if err != nil || !bytes.Equal(got, append(append([]byte(nil), prefix...), base...)) {
						c.Rec.Violate(cs, "ReadStringBytes result != existing contents ++ result with empty destination", "ReadStringBytes", fmt.Sprintf("%q ++ %q", prefix, base), fmt.Sprintf("len(dst)=%d cap(dst)=%d got %q err=%s", len(prefix), cap(dst), got, errStr(err)))
					}
					if !bytes.Equal(dst, prefix) {
						c.Rec.Violate(cs, "ReadStringBytes modified the destination's existing contents", "ReadStringBytes", fmt.Sprintf("%q", prefix), fmt.Sprintf("%q", dst))
					}
					dst2 := append(garbage(r, len(prefix)+cap(dst)-len(dst))[:0], prefix...)
					got2, _, err2 := rjson.UnescapeStringContent(content, dst2)
					c.Rec.Evals(1)
					c.Rec.C("append_semantics_calls")
					if err2 != nil || !bytes.Equal(got2, append(append([]byte(nil), prefix...), ubase...)) {
						c.Rec.Violate(cs, "UnescapeStringContent result != existing contents ++ result with empty destination", "UnescapeStringContent", fmt.Sprintf("%q ++ %q", prefix, ubase), fmt.Sprintf("len(dst)=%d cap(dst)=%d got %q err=%s", len(prefix), cap(dst2), got2, errStr(err2)))
					}
					if !bytes.Equal(dst2[:len(prefix)], prefix) {
						c.Rec.Violate(cs, "UnescapeStringContent modified the destination's existing contents", "UnescapeStringContent", fmt.Sprintf("%q", prefix), fmt.Sprintf("%q", dst2[:len(prefix)]))
					}
				}
			})
		}
		// StdLibCompatibleStringBytes on the raw input bytes (any byte string is a legal argument)
		if len(d) <= 64 || c.Rec.R.Cases%16 == 0 {
			c.Guarded(cs, "StdLibCompatibleStringBytes (append semantics)", func() {
				base := rjson.StdLibCompatibleStringBytes(d, nil)
				c.Rec.Evals(1)
				if h.Overlaps(base, d) {
					c.Rec.Violate(cs, "StdLibCompatibleStringBytes(nil destination) returned memory shared with its source", "StdLibCompatibleStringBytes", "fresh memory", fmt.Sprintf("len=%d cap=%d", len(base), cap(base)))
				}
				for _, dst := range dstGrid(r, len(base)) {
					prefix := append([]byte(nil), dst...)
					got := rjson.StdLibCompatibleStringBytes(d, dst)
					c.Rec.Evals(1)
					c.Rec.C("append_semantics_calls")
					if !bytes.Equal(got, append(append([]byte(nil), prefix...), base...)) {
						c.Rec.Violate(cs, "StdLibCompatibleStringBytes result != existing contents ++ result with empty destination", "StdLibCompatibleStringBytes", fmt.Sprintf("%q ++ %q", prefix, base), fmt.Sprintf("len(dst)=%d cap(dst)=%d got %q", len(prefix), cap(dst), got))
					}
					if !bytes.Equal(dst, prefix) {
						c.Rec.Violate(cs, "StdLibCompatibleStringBytes modified the destination's existing contents", "StdLibCompatibleStringBytes", fmt.Sprintf("%q", prefix), fmt.Sprintf("%q", dst))
					}
				}
			})
		}
		// C. scratch contents are irrelevant; D. returned strings own their memory
		c.Guarded(cs, "ReadString/DecodeString (scratch independence, ownership)", func() {
			s0, pa, ea := rjson.ReadString(d, nil)
			c.Rec.Evals(1)
			for _, l := range []int{0, 2, 9} {
				for _, extra := range []int{0, 1, len(ws), 2*len(ws) + 3} {
					full := garbage(r, l+extra)
					scratch := full[:l]
					w := append([]byte(nil), d...) // writable copy of the input
					s1, pb, eb := rjson.ReadString(w, &scratch)
					c.Rec.Evals(1)
					c.Rec.C("scratch_independence_calls")
					if (ea == nil) != (eb == nil) || pa != pb || (ea == nil && s0 != s1) {
						c.Rec.Violate(cs, "ReadString result depends on the scratch buffer's prior contents", "ReadString", fmt.Sprintf("%q p=%d err=%s", s0, pa, errStr(ea)), fmt.Sprintf("len=%d cap=%d: %q p=%d err=%s", l, l+extra, s1, pb, errStr(eb)))
					}
					tgt := "T"
					pd, ed := rjson.DecodeString(w, &tgt, &scratch)
					c.Rec.Evals(1)
					if ea == nil && (ed != nil || tgt != s0 || pd != pa) {
						c.Rec.Violate(cs, "DecodeString result depends on the scratch buffer's prior contents", "DecodeString", fmt.Sprintf("%q p=%d", s0, pa), fmt.Sprintf("%q p=%d err=%s", tgt, pd, errStr(ed)))
					}
					if eb == nil {
						snap := strings.Clone(s1)
						snapT := strings.Clone(tgt)
						for i := range w {
							w[i] = 0xEE
						}
						fs := scratch[:cap(scratch)]
						for i := range fs {
							fs[i] = 0xDD
						}
						for i := range full {
							full[i] = 0xDD
						}
						rjson.ReadString(otherDocs[0][7:], &scratch)
						c.Rec.C("returned_strings_rechecked_after_overwrites")
						if s1 != snap {
							c.Rec.Violate(cs, "string returned by ReadString changed after the input/scratch were overwritten", "ReadString", fmt.Sprintf("%q", snap), fmt.Sprintf("%q", s1))
						}
						if ed == nil && tgt != snapT {
							c.Rec.Violate(cs, "string stored by DecodeString changed after the input/scratch were overwritten", "DecodeString", fmt.Sprintf("%q", snapT), fmt.Sprintf("%q", tgt))
						}
					}
				}
			}
		})
		// C0. strings returned WITHOUT a scratch buffer own their memory too: the caller refills its
		// input buffer and the string must stay what it was (seeded change C06r7-m2: the escape-free
		// fast path of ReadString(data, nil) returned a string backed by the input)
		c.Guarded(cs, "ReadString/DecodeString(nil scratch) ownership", func() {
			w := append([]byte(nil), d...)
			s1, _, e1 := rjson.ReadString(w, nil)
			var s2 string
			_, e2 := rjson.DecodeString(w, &s2, nil)
			b3, _, e3 := rjson.ReadStringBytes(w, nil)
			c.Rec.Evals(3)
			if e1 != nil {
				return
			}
			snap1, snap2, snap3 := strings.Clone(s1), strings.Clone(s2), append([]byte(nil), b3...)
			for i := range w {
				w[i] = 0xEE
			}
			c.Rec.C("strings_returned_without_scratch_rechecked_after_the_input_was_overwritten")
			if s1 != snap1 {
				c.Rec.Violate(cs, "string returned by ReadString(data, nil) changed after the input was overwritten", "ReadString", fmt.Sprintf("%q", snap1), fmt.Sprintf("%q", s1))
			}
			if e2 == nil && s2 != snap2 {
				c.Rec.Violate(cs, "string stored by DecodeString(data, v, nil) changed after the input was overwritten", "DecodeString", fmt.Sprintf("%q", snap2), fmt.Sprintf("%q", s2))
			}
			if e3 == nil && !bytes.Equal(b3, snap3) {
				c.Rec.Violate(cs, "bytes returned by ReadStringBytes(data, nil) changed after the input was overwritten", "ReadStringBytes", fmt.Sprintf("%q", snap3), fmt.Sprintf("%q", b3))
			}
		})
		// C'. the ValueReader's own scratch (field names, strings, spare containers) is a scratch buffer
		// too: a reader used on every earlier input must return what a brand-new one returns
		// (seeded changes C16r5-m1: field name copied into len instead of cap; C16r5-m2: a map left
		// behind by a failed read)
		c.Guarded(cs, "ValueReader.ReadValue (scratch left by earlier inputs)", func() {
			v1, p1, e1 := histVR.ReadValue(d)
			var fresh rjson.ValueReader
			v2, p2, e2 := fresh.ReadValue(d)
			c.Rec.Evals(2)
			c.Rec.C("reader_scratch_independence_comparisons")
			if (e1 == nil) != (e2 == nil) || p1 != p2 || (e1 == nil && !refmodel.EqTree(v1, v2)) {
				c.Rec.Violate(cs, "a ValueReader used on earlier inputs returns something else than a brand-new one", "ValueReader.ReadValue", fmt.Sprintf("p=%d err=%s val=%s", p2, errStr(e2), show(v2)), fmt.Sprintf("p=%d err=%s val=%s", p1, errStr(e1), show(v1)))
			}
		})
		// D0. two results (or two parts of one result) never share a container, empty ones included:
		// the caller writes into one empty object and looks at the others (seeded change C16r7-m2:
		// one package-level map returned for every {} read while a size hint was in force)
		if c.Rec.R.Cases%16 == 0 {
			c.Guarded(cs, "ReadValue/ReadObject (empty containers are the caller's own)", func() {
				v, _, err := rjson.ReadValue(canaryDoc)
				o2, _, err2 := longVR.ReadObject(canaryObj)
				c.Rec.Evals(2)
				c.Rec.C("empty_container_canaries")
				arr, ok := v.([]interface{})
				if err != nil || err2 != nil || !ok || len(arr) != 4 {
					c.Rec.Violate(cs, "canary document not decoded", "ReadValue", "four elements", show(v))
					return
				}
				m1, _ := arr[1].(map[string]interface{})
				m3, _ := arr[3].(map[string]interface{})
				if m1 == nil || m3 == nil || len(m1) != 0 || len(m3) != 0 || len(o2) != 0 {
					c.Rec.Violate(cs, "an empty object is decoded as something else than an empty map (state left by an earlier caller's write?)", "ReadValue", "[{a:1} {} {b:2} {}] and {}", show(v)+" and "+show(o2))
					return
				}
				m1["written by the caller"] = true
				if len(m3) != 0 || len(o2) != 0 {
					c.Rec.Violate(cs, "writing into one returned empty object changed another returned empty object", "ReadValue", "independent maps", show(v)+" and "+show(o2))
				}
			})
		}
		// D. value trees own their memory
		c.Guarded(cs, "ReadValue (ownership)", func() {
			for vi := 0; vi < 2; vi++ {
				w := append([]byte(nil), d...)
				var v interface{}
				var err error
				if vi == 0 {
					v, _, err = rjson.ReadValue(w)
				} else {
					v, _, err = longVR.ReadValue(w)
				}
				c.Rec.Evals(1)
				if err != nil {
					continue
				}
				snap := refmodel.CopyTree(v)
				// the caller fills the spare capacity of the slices it was given (what append does):
				// no other part of the result may live there (seeded change C16r6-m1)
				scribbleSpare(v)
				if !refmodel.EqTree(v, snap) {
					c.Rec.Violate(cs, "value tree changed when the caller wrote into the spare capacity of its own slices (parts of the result share a backing array)", "ReadValue", show(snap), show(v))
					snap = refmodel.CopyTree(v)
				}
				// the StdLibCompatible helpers take the tree as their INPUT: they must not write to it
				// (seeded change C16r7-m1: the 'clone' was append(arg[:0], arg...), i.e. the argument)
				var conv interface{}
				switch t := v.(type) {
				case []interface{}:
					conv = rjson.StdLibCompatibleSlice(t)
				case map[string]interface{}:
					conv = rjson.StdLibCompatibleMap(t)
				}
				// ... and what they return is the caller's own, empty containers included: writing into
				// the result must not show in the argument (seeded change C16r8-m1)
				scribble(conv, 0)
				if !refmodel.EqTree(v, snap) {
					c.Rec.Violate(cs, "StdLibCompatibleSlice/Map modified the value tree it was given", "StdLibCompatibleSlice", show(snap), show(v))
					snap = refmodel.CopyTree(v)
				}
				for i := range w {
					w[i] = 0xEE
				}
				for _, od := range otherDocs {
					longVR.ReadValue(od)
				}
				c.Rec.C("returned_trees_rechecked_after_overwrites")
				if !refmodel.EqTree(v, snap) {
					c.Rec.Violate(cs, "value tree changed after the input was overwritten and the reader was used again", "ReadValue", show(snap), show(v))
				}
			}
		})
		// D2. the caller's read buffer is refilled with the document's same-length sibling (every key and string at
		// the same offset with the same raw length, one byte of difference) and decoded by the same reader: the
		// second result must be the sibling's tree and the first must stay what it was (seeded changes C16r10-m1,
		// C03r10-m1: a reader that remembers a slice of the caller's input as "the escaped name I unescaped last")
		if len(d) <= 4096 && bytes.IndexByte(d, '"') >= 0 && c.Rec.R.Cases%2 == 0 {
			if sib, ok := siblingSameLength(d); ok {
				c.Guarded(cs, "ValueReader.ReadValue (refilled input buffer)", func() {
					for vi := 0; vi < 2; vi++ {
						vr := &longVR
						if vi == 1 {
							vr = &rjson.ValueReader{}
						}
						w := append([]byte(nil), d...)
						v1, _, e1 := vr.ReadValue(w)
						snap1 := refmodel.CopyTree(v1)
						copy(w, sib)
						v2, _, e2 := vr.ReadValue(w)
						v3, _, e3 := rjson.ReadValue(append([]byte(nil), sib...))
						c.Rec.Evals(3)
						c.Rec.C("same_length_siblings_through_a_refilled_buffer")
						if (e2 == nil) != (e3 == nil) || e2 == nil && !refmodel.EqTree(v2, v3) {
							c.Rec.Violate(cs, "a reader given the same-length sibling of the previous document at the same address returns something else than a brand-new reader given a copy", "ValueReader.ReadValue", fmt.Sprintf("err=%s val=%s", errStr(e3), show(v3)), fmt.Sprintf("err=%s val=%s (sibling %s)", errStr(e2), show(v2), h.Quote(sib)))
						}
						if e1 == nil && !refmodel.EqTree(v1, snap1) {
							c.Rec.Violate(cs, "value tree changed after the caller refilled its input buffer and decoded again", "ValueReader.ReadValue", show(snap1), show(v1))
						}
					}
				})
			}
		}
		if wok && c.Rec.CN("string_tokens_eligible_as_samples")%3001 == 1 && c.Rec.WantSample() {
			c.Rec.Sample(map[string]interface{}{"input": h.Quote(d), "how": cs.Describe(), "checked": "input held in a PROT_READ page through every API call; destinations of 35 (len,cap) shapes; scratch of 12 shapes; returned string/tree re-read after overwriting input and scratch"})
		}
	}
	gr := newGuardRunner(c, 8<<20, "C16", process)
	if c.Replay != nil {
		gr.add(&h.Case{Family: c.Replay.Family, Desc: c.Replay.Desc, Input: c.Replay.Input()})
		gr.close()
		return
	}
	sink := func(cs *h.Case) {
		if !c.Mine(cs.Input) {
			return
		}
		c.Rec.R.Cases++
		c.Rec.R.Counters["family_"+cs.Family]++
		if bytes.IndexByte(cs.Input, '"') >= 0 {
			c.Rec.R.Nontrivial++
		}
		gr.add(cs)
	}
	if c.Thorough() {
		workload.W7Generated(400000, c.Seed, sink)
		workload.W7Surrogates(64, sink)
		workload.W3(400000, c.Seed, sink)
		workload.W1(false, func(cs *h.Case) {
			if cs.P[0]%2 == 0 {
				sink(cs)
			}
		})
	} else {
		workload.W7Generated(40000, c.Seed, sink)
		workload.W7Surrogates(0, sink)
		workload.W3(40000, c.Seed, sink)
		workload.W1(false, func(cs *h.Case) {
			if (cs.P[0]+int(c.Seed))%12 == 0 {
				sink(cs)
			}
		})
	}
	workload.W7Positions(40, func(cs *h.Case) {
		if c.Thorough() || (cs.P[0]+cs.P[2]+int(c.Seed))%4 == 0 {
			sink(cs)
		}
	})
	workload.W5([]int{1000, 70000}, sink)
	workload.W4([]int{9999, 10000, 10001}, workload.NestPatterns[:6], []string{"", "0"}, sink)
	gr.close()
}
