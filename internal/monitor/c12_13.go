package monitor

import (
	"bytes"
	"errors"
	"fmt"
	"io"
	"math"
	"strings"

	"github.com/willabides/rjson"

	h "verif/internal/harness"
	"verif/internal/refmodel"
	"verif/internal/workload"
)

// ---------------------------------------------------------------- C12

func decodeCheck[T any](c *Ctx, cs *h.Case, name string, d []byte, read func([]byte) (T, int, error), dec func([]byte, *T) (int, error), sentinels [2]T, eq func(a, b T) bool, extras ...func([]byte) []T) {
	var extra func([]byte) []T
	if len(extras) > 0 {
		extra = extras[0]
	}
	c.Guarded(cs, "Decode"+name, func() {
		rv, rp, rerr := read(d)
		c.Rec.Evals(1)
		p0 := refmodel.SkipWS(d, 0)
		isNull := strings.HasPrefix(string(d[p0:]), "null")
		// prior targets: two fixed sentinels plus values CORRELATED with the input - the value the
		// reader returns (a 'value unchanged' fast path would then be taken) and whatever extra()
		// derives from the raw input (seeded change C12r3-m2)
		all := append([]T{}, sentinels[:]...)
		if rerr == nil {
			all = append(all, rv)
		}
		if extra != nil {
			all = append(all, extra(d)...)
		}
		// the same call on a copy with cap == len (a read through the capacity panics) and on a copy whose
		// spare capacity completes a truncated literal: the outcome may depend on data[:len] only
		// (seeded change C12r7-m1: the null fallback compares data[p:p+4] with an off-by-one bound)
		if len(d) <= 64 {
			t0 := sentinels[0]
			p0v, e0 := dec(d, &t0)
			tight := make([]byte, len(d))
			copy(tight, d)
			for vi, view := range [][]byte{tight[:len(d):len(d)], withBait(d)} {
				tv := sentinels[0]
				pv, ev := dec(view, &tv)
				c.Rec.Evals(1)
				if pv != p0v || (ev == nil) != (e0 == nil) || !eq(tv, t0) {
					c.Rec.Violate(cs, "Decode"+name+" depends on the capacity behind len(data) or on the bytes in it", "Decode"+name, fmt.Sprintf("p=%d err=%s target=%v", p0v, errStr(e0), t0), fmt.Sprintf("view %d (0: cap==len, 1: continuation in the spare capacity): p=%d err=%s target=%v", vi, pv, errStr(ev), tv))
				}
			}
			c.Rec.C("decode_calls_repeated_on_tight_and_baited_copies")
		}
		for _, s := range all {
			t := s
			p, err := dec(d, &t)
			c.Rec.Evals(1)
			switch {
			case rerr == nil:
				c.Rec.C("outcome_value_stored")
				if err != nil || p != rp || !eq(t, rv) {
					c.Rec.Violate(cs, "Decode"+name+" differs from reader on success", "Decode"+name, fmt.Sprintf("p=%d target=%v err=<nil>", rp, rv), fmt.Sprintf("p=%d target=%v err=%s", p, t, errStr(err)))
				}
			case isNull:
				c.Rec.C("outcome_null_target_untouched")
				if err != nil || p != p0+4 {
					c.Rec.Violate(cs, "Decode"+name+" on null: wrong offset or error", "Decode"+name, fmt.Sprintf("p=%d err=<nil>", p0+4), fmt.Sprintf("p=%d err=%s", p, errStr(err)))
				}
				if !eq(t, s) {
					c.Rec.Violate(cs, "Decode"+name+" on null: target modified", "Decode"+name, fmt.Sprintf("target=%v", s), fmt.Sprintf("target=%v", t))
				}
			default:
				c.Rec.C("outcome_error_target_untouched")
				if err == nil {
					c.Rec.Violate(cs, "Decode"+name+" succeeds where reader fails and input is not null", "Decode"+name, "error", fmt.Sprintf("p=%d target=%v", p, t))
				}
				if !eq(t, s) {
					c.Rec.Violate(cs, "Decode"+name+" on error: target modified", "Decode"+name, fmt.Sprintf("target=%v", s), fmt.Sprintf("target=%v", t))
				}
			}
		}
	})
}

func eqc[T comparable](a, b T) bool { return a == b }

// c12Alias: the target holds what an EARLIER DecodeString stored through the same scratch buffer
// (so a zero-copy result would alias the scratch); the call under observation then reuses that
// scratch. On error and on null the target must still read as before; on success into a second
// target the first one must (seeded change C12r5-m1).
func c12Alias(c *Ctx, cs *h.Case, d []byte, buf *[]byte) {
	if len(d) > 4096 || bytes.IndexByte(d, '"') < 0 {
		return
	}
	c.Guarded(cs, "DecodeString (target stored earlier through the same scratch)", func() {
		prime := make([]byte, 0, len(d)+16)
		prime = append(prime, '"', 'p', '\\', 't')
		for i := 0; i < len(d); i++ {
			prime = append(prime, byte('a'+i%26))
		}
		prime = append(prime, '"')
		if c.Rec.R.Cases%7 == 0 {
			*buf = nil // the 'var scratch []byte' start, every so often
		}
		var s1, s2 string
		if _, err := rjson.DecodeString(prime, &s1, buf); err != nil {
			c.Rec.Inconsistent(cs, "priming DecodeString failed", "ok", err.Error())
			return
		}
		want := strings.Clone(s1)
		_, _, rerr := rjson.ReadString(d, nil)
		c.Rec.Evals(2)
		if rerr == nil {
			c.Rec.C("alias_history_success_into_second_target")
			rjson.DecodeString(d, &s2, buf)
			if s1 != want {
				c.Rec.Violate(cs, "an earlier DecodeString target changed when the scratch buffer was reused", "DecodeString", h.Quote([]byte(want)), h.Quote([]byte(s1)))
			}
			return
		}
		c.Rec.C("alias_history_error_or_null_on_same_target")
		rjson.DecodeString(d, &s1, buf)
		if s1 != want {
			c.Rec.Violate(cs, "DecodeString on error/null: target (stored earlier through the same scratch) modified", "DecodeString", h.Quote([]byte(want)), h.Quote([]byte(s1)))
		}
	})
}

// C12: Decode* store only on success; null leaves the target alone.
func RunC12(c *Ctx) {
	scratch := dirty(16, 3)
	bigScratch := make([]byte, 0, 128<<10)
	var aliasBuf []byte
	check := func(cs *h.Case) {
		d := cs.Input
		decodeCheck(c, cs, "Bool", d, rjson.ReadBool, rjson.DecodeBool, [2]bool{true, false}, eqc[bool])
		decodeCheck(c, cs, "Float64", d, rjson.ReadFloat64, rjson.DecodeFloat64, [2]float64{-7.25e77, 3.5}, func(a, b float64) bool { return math.Float64bits(a) == math.Float64bits(b) })
		// both zeros as prior targets: a 'store only if different' shortcut compares with ==, under
		// which +0 and -0 are equal (seeded change C12r9-m2)
		decodeCheck(c, cs, "Float64(zero targets)", d, rjson.ReadFloat64, rjson.DecodeFloat64, [2]float64{0, math.Copysign(0, -1)}, func(a, b float64) bool { return math.Float64bits(a) == math.Float64bits(b) })
		decodeCheck(c, cs, "Int64", d, rjson.ReadInt64, rjson.DecodeInt64, [2]int64{-987654321987, 42}, eqc[int64])
		decodeCheck(c, cs, "Int32", d, rjson.ReadInt32, rjson.DecodeInt32, [2]int32{-98765432, 42}, eqc[int32])
		decodeCheck(c, cs, "Int", d, rjson.ReadInt, rjson.DecodeInt, [2]int{sentInt, 42}, eqc[int])
		decodeCheck(c, cs, "Uint64", d, rjson.ReadUint64, rjson.DecodeUint64, [2]uint64{987654321987, 42}, eqc[uint64])
		decodeCheck(c, cs, "Uint32", d, rjson.ReadUint32, rjson.DecodeUint32, [2]uint32{987654321, 42}, eqc[uint32])
		decodeCheck(c, cs, "Uint", d, rjson.ReadUint, rjson.DecodeUint, [2]uint{sentUint, 42}, eqc[uint])
		decodeCheck(c, cs, "String", d,
			func(b []byte) (string, int, error) { return rjson.ReadString(b, nil) },
			func(b []byte, v *string) (int, error) { return rjson.DecodeString(b, v, nil) },
			[2]string{"sentinel-one", ""}, eqc[string], rawStringTargets)
		decodeCheck(c, cs, "String(scratch)", d,
			func(b []byte) (string, int, error) { return rjson.ReadString(b, nil) },
			func(b []byte, v *string) (int, error) { return rjson.DecodeString(b, v, &scratch) },
			[2]string{"sentinel-two", "x"}, eqc[string], rawStringTargets)
		// a scratch the caller pre-sized generously (seeded change C12r6-m2: a retention cap above
		// 64 KiB clears the local scratch before the value is stored)
		decodeCheck(c, cs, "String(128 KiB scratch)", d,
			func(b []byte) (string, int, error) { return rjson.ReadString(b, nil) },
			func(b []byte, v *string) (int, error) { return rjson.DecodeString(b, v, &bigScratch) },
			[2]string{"sentinel-three", "y"}, eqc[string])
		c12Alias(c, cs, d, &aliasBuf)
		// a target stored WITHOUT a scratch must own its memory: the caller refills its input buffer
		// and decodes something else (or fails to) into another target (seeded change C12r8-m1)
		if len(d) <= 4096 && bytes.IndexByte(d, '"') >= 0 {
			c.Guarded(cs, "DecodeString(nil scratch) ownership", func() {
				w := append([]byte(nil), d...)
				var s1 string
				if _, e := rjson.DecodeString(w, &s1, nil); e == nil {
					want := strings.Clone(s1)
					for i := range w {
						w[i] = '1'
					}
					var other string
					rjson.DecodeString(w, &other, nil)
					c.Rec.Evals(2)
					c.Rec.C("targets_stored_without_scratch_rechecked_after_the_input_was_refilled")
					if s1 != want {
						c.Rec.Violate(cs, "a DecodeString target (nil scratch) changed when the caller refilled its input buffer", "DecodeString", h.Quote([]byte(want)), h.Quote([]byte(s1)))
					}
				}
			})
		}
		if c.Rec.WantSample() && c.Rec.R.Cases%5003 == 1 {
			t := int64(-5)
			p, err := rjson.DecodeInt64(d, &t)
			c.Rec.Sample(map[string]interface{}{"input": h.Quote(d), "how": cs.Describe(), "DecodeInt64(target=-5)": fmt.Sprintf("p=%d err=%s target=%d", p, errStr(err), t)})
		}
	}
	if c.Replay != nil {
		check(&h.Case{Family: c.Replay.Family, Desc: c.Replay.Desc, Input: c.Replay.Input()})
		return
	}
	sink := func(cs *h.Case) {
		if !c.Mine(cs.Input) {
			return
		}
		c.Rec.R.Cases++
		c.Rec.R.Counters["family_"+cs.Family]++
		p0 := refmodel.SkipWS(cs.Input, 0)
		if p0 < len(cs.Input) {
			c.Rec.R.Nontrivial++
		}
		c.Mark("C12 "+cs.Family, cs.Input)
		check(cs)
	}
	workload.W1R(sink)
	workload.W1Words(sink)
	workload.W1First(sink)
	workload.W1RL(sink)
	workload.W1Uni(sink)
	workload.W1Len(func(cs *h.Case) {
		if cs.P[2] == 0 {
			sink(cs)
		}
	})
	nullVariants(sink)
	workload.W1(c.Thorough(), func(cs *h.Case) {
		if cs.P[0] < workload.TopLevelSeeds() {
			sink(cs)
		}
	})
	win, nr := 40, 50000
	if c.Thorough() {
		win, nr = 600, 1500000
	}
	workload.W6Ints(win, nr, c.Seed, sink)
	workload.W6Special(sink)
	workload.W6Exponents(3, c.Seed, sink)
	workload.W5([]int{3000, 70000}, sink) // long tokens: size thresholds of scratch handling
	// string tokens cut anywhere, one injected byte, a foreign continuation (incl. null and literal
	// tails) and the closing quote (seeded change C06r8-m1: the null fallback resumed where the
	// string reader had stopped, so "abc<TAB>null succeeded)
	workload.W2T(false, func(cs *h.Case) {
		if len(cs.Input) > 0 && cs.Input[0] == '"' {
			sink(cs)
		}
	})
	if c.Thorough() {
		workload.W7Generated(300000, c.Seed, sink)
	} else {
		workload.W7Generated(30000, c.Seed, sink)
	}
}

// nullVariants: the literal null, its one-byte corruptions, truncations and contexts.
func nullVariants(sink workload.Sink) {
	cs := &h.Case{Family: "nullvar"}
	buf := make([]byte, 0, 32)
	pres := []string{"", " ", "\n\t ", "\r"}
	sufs := []string{"", ",", " ", "x", "l", "]", "null", "1", "\""}
	for _, lit := range []string{"null", "true", "false"} {
		for _, pre := range pres {
			for _, suf := range sufs {
				emit := func(body []byte) {
					buf = append(buf[:0], pre...)
					buf = append(buf, body...)
					buf = append(buf, suf...)
					cs.Input = buf
					cs.Desc = fmt.Sprintf("%s corrupted to %q, prefix %q suffix %q", lit, body, pre, suf)
					sink(cs)
				}
				emit([]byte(lit))
				body := make([]byte, 0, 16)
				for i := 0; i <= len(lit); i++ {
					emit([]byte(lit[:i])) // truncation
					for b := 0; b < 256; b++ {
						if i < len(lit) {
							body = append(body[:0], lit...)
							body[i] = byte(b)
							emit(body)
						}
						body = append(body[:0], lit[:i]...)
						body = append(body, byte(b))
						body = append(body, lit[i:]...)
						emit(body)
					}
				}
			}
		}
	}
}

// ---------------------------------------------------------------- C13

// tokenTable is the fixed JSON token table, written out independently of rjson.
func tokenTable(b byte) rjson.TokenType {
	switch b {
	case 'n':
		return rjson.NullType
	case '"':
		return rjson.StringType
	case 't':
		return rjson.TrueType
	case 'f':
		return rjson.FalseType
	case '{':
		return rjson.ObjectStartType
	case '}':
		return rjson.ObjectEndType
	case '[':
		return rjson.ArrayStartType
	case ']':
		return rjson.ArrayEndType
	case ',':
		return rjson.CommaType
	case ':':
		return rjson.ColonType
	case '-', '0', '1', '2', '3', '4', '5', '6', '7', '8', '9':
		return rjson.NumberType
	}
	return rjson.InvalidType
}

// checkTokens observes the token functions on three views of the same bytes: the generator's
// slice, a copy with cap == len (a read through the capacity panics) and a copy whose spare
// capacity continues a truncated literal (such a read would complete the token).
func checkTokens(c *Ctx, cs *h.Case) {
	checkTokensOn(c, cs, cs.Input, "")
	if n := len(cs.Input); n <= 64 {
		tight := make([]byte, n)
		copy(tight, cs.Input)
		checkTokensOn(c, cs, tight[:n:n], " on a cap==len copy")
		checkTokensOn(c, cs, withBait(cs.Input), " with a continuation in the spare capacity")
		c.Rec.C("inputs_also_run_as_tight_and_baited_copies")
		if n <= 24 && c.Rec.R.Cases%3 == 0 {
			// followed by a long tail: word-at-a-time fast paths only engage when 8 or more bytes remain
			// (seeded change C13r8-m1: a one-load literal compare whose mask is one bit short)
			long := append(append([]byte(nil), cs.Input...), ",1, 2, 3, 4, 5, 6, 7, 8, 9]"...)
			checkTokensOn(c, cs, long, " followed by a long tail")
		}
	}
}

func checkTokensOn(c *Ctx, cs *h.Case, d []byte, view string) {
	p0 := 0
	for p0 < len(d) && (d[p0] == ' ' || d[p0] == '\t' || d[p0] == '\r' || d[p0] == '\n') {
		p0++
	}
	c.Guarded(cs, "NextToken"+view, func() {
		tok, p, err := rjson.NextToken(d)
		c.Rec.Evals(1)
		if p0 == len(d) {
			c.Rec.C("end_of_input_cases")
			if err != io.EOF {
				c.Rec.Violate(cs, "NextToken: no io.EOF on empty/all-whitespace input", "NextToken", "io.EOF", fmt.Sprintf("tok=%q p=%d err=%s", tok, p, errStr(err)))
			}
		} else {
			want := tokenTable(d[p0])
			if err == io.EOF {
				c.Rec.Violate(cs, "NextToken: io.EOF although a byte follows", "NextToken", fmt.Sprintf("tok=%q p=%d", d[p0], p0+1), "io.EOF")
			} else if tok != d[p0] || p != p0+1 || (err == nil) != (want != rjson.InvalidType) {
				c.Rec.Violate(cs, "NextToken result != table", "NextToken", fmt.Sprintf("tok=%q p=%d valid=%v", d[p0], p0+1, want != rjson.InvalidType), fmt.Sprintf("tok=%q p=%d err=%s", tok, p, errStr(err)))
			}
		}
	})
	c.Guarded(cs, "NextTokenType"+view, func() {
		tt, p, err := rjson.NextTokenType(d)
		c.Rec.Evals(1)
		if p0 == len(d) {
			if err != io.EOF {
				c.Rec.Violate(cs, "NextTokenType: no io.EOF on empty/all-whitespace input", "NextTokenType", "io.EOF", fmt.Sprintf("type=%v p=%d err=%s", tt, p, errStr(err)))
			}
		} else {
			want := tokenTable(d[p0])
			if err != nil || tt != want || p != p0+1 {
				c.Rec.Violate(cs, "NextTokenType result != table", "NextTokenType", fmt.Sprintf("type=%v p=%d err=<nil>", want, p0+1), fmt.Sprintf("type=%v p=%d err=%s", tt, p, errStr(err)))
			}
			c.Rec.SetAdd("token_types_seen", want.String())
		}
	})
	rest := string(d[p0:])
	c.Guarded(cs, "ReadNull"+view, func() {
		p, err := rjson.ReadNull(d)
		c.Rec.Evals(1)
		want := strings.HasPrefix(rest, "null")
		if (err == nil) != want || (want && p != p0+4) {
			c.Rec.Violate(cs, "ReadNull != literal prefix test", "ReadNull", fmt.Sprintf("ok=%v p=%d", want, p0+4), fmt.Sprintf("p=%d err=%s", p, errStr(err)))
		}
		if want {
			c.Rec.C("literal_null_accepted")
		}
	})
	c.Guarded(cs, "ReadBool"+view, func() {
		v, p, err := rjson.ReadBool(d)
		c.Rec.Evals(1)
		wt, wf := strings.HasPrefix(rest, "true"), strings.HasPrefix(rest, "false")
		switch {
		case wt:
			c.Rec.C("literal_true_accepted")
			if err != nil || !v || p != p0+4 {
				c.Rec.Violate(cs, "ReadBool != literal true", "ReadBool", fmt.Sprintf("true p=%d", p0+4), fmt.Sprintf("val=%v p=%d err=%s", v, p, errStr(err)))
			}
		case wf:
			c.Rec.C("literal_false_accepted")
			if err != nil || v || p != p0+5 {
				c.Rec.Violate(cs, "ReadBool != literal false", "ReadBool", fmt.Sprintf("false p=%d", p0+5), fmt.Sprintf("val=%v p=%d err=%s", v, p, errStr(err)))
			}
		default:
			if err == nil {
				c.Rec.Violate(cs, "ReadBool succeeds on a non-literal", "ReadBool", "error", fmt.Sprintf("val=%v p=%d", v, p))
			}
		}
	})
}

type family struct {
	name string
	ok   func(t rjson.TokenType) bool
	fns  []func(d []byte) error
	fnn  []string
}

var scratch13 = make([]byte, 0, 64)

var readFamilies = []family{
	{"null", func(t rjson.TokenType) bool { return t == rjson.NullType },
		[]func([]byte) error{func(d []byte) error { _, e := rjson.ReadNull(d); return e }}, []string{"ReadNull"}},
	{"bool", func(t rjson.TokenType) bool { return t == rjson.TrueType || t == rjson.FalseType },
		[]func([]byte) error{func(d []byte) error { _, _, e := rjson.ReadBool(d); return e }}, []string{"ReadBool"}},
	{"number", func(t rjson.TokenType) bool { return t == rjson.NumberType },
		[]func([]byte) error{
			func(d []byte) error { _, _, e := rjson.ReadFloat64(d); return e },
			func(d []byte) error { _, _, e := rjson.ReadInt64(d); return e },
			func(d []byte) error { _, _, e := rjson.ReadInt32(d); return e },
			func(d []byte) error { _, _, e := rjson.ReadInt(d); return e },
			func(d []byte) error { _, _, e := rjson.ReadUint64(d); return e },
			func(d []byte) error { _, _, e := rjson.ReadUint32(d); return e },
			func(d []byte) error { _, _, e := rjson.ReadUint(d); return e },
		}, []string{"ReadFloat64", "ReadInt64", "ReadInt32", "ReadInt", "ReadUint64", "ReadUint32", "ReadUint"}},
	{"string", func(t rjson.TokenType) bool { return t == rjson.StringType },
		[]func([]byte) error{
			func(d []byte) error { _, _, e := rjson.ReadString(d, nil); return e },
			func(d []byte) error { _, _, e := rjson.ReadStringBytes(d, scratch13[:0]); return e },
		}, []string{"ReadString", "ReadStringBytes"}},
	{"object", func(t rjson.TokenType) bool { return t == rjson.ObjectStartType },
		[]func([]byte) error{func(d []byte) error { _, _, e := rjson.ReadObject(d); return e },
			func(d []byte) error { _, _, e := vr13.ReadObject(d); return e },
			func(d []byte) error {
				if !nullish(d) {
					return errNotObserved
				}
				vr13w.ReadObject(wideObj13)
				_, _, e := vr13w.ReadObject(d)
				return e
			}}, []string{"ReadObject", "ValueReader(long-lived).ReadObject", "ValueReader(right after a 40-member object).ReadObject"}},
	{"array", func(t rjson.TokenType) bool { return t == rjson.ArrayStartType },
		[]func([]byte) error{func(d []byte) error { _, _, e := rjson.ReadArray(d); return e },
			func(d []byte) error { _, _, e := vr13.ReadArray(d); return e },
			func(d []byte) error {
				if !nullish(d) {
					return errNotObserved
				}
				vr13w.ReadArray(wideArr13)
				_, _, e := vr13w.ReadArray(d)
				return e
			}}, []string{"ReadArray", "ValueReader(long-lived).ReadArray", "ValueReader(right after a 40-element array).ReadArray"}},
}

// vr13 is one ValueReader reused for every input of the worker: the typed Read METHODS are Read
// functions too, and their type exclusivity must not depend on what the reader saw before
// (seeded change C13r2-m1 let a reused reader's ReadObject accept null).
var vr13 rjson.ValueReader

var errNotObserved = errors.New("variant not run on this input")

// nullish: the first non-whitespace byte is 'n' (the primed variants below only matter for null).
func nullish(d []byte) bool {
	p := refmodel.SkipWS(d, 0)
	return p < len(d) && d[p] == 'n'
}

// vr13w is a second long-lived reader that reads a wide container right before every call under
// observation (size hints carried into the null check; seeded change C13r8-m2).
var (
	vr13w     rjson.ValueReader
	wideObj13 = []byte(`{"k0":0,"k1":1,"k2":2,"k3":3,"k4":4,"k5":5,"k6":6,"k7":7,"k8":8,"k9":9,"k10":0,"k11":1,"k12":2,"k13":3,"k14":4,"k15":5,"k16":6,"k17":7,"k18":8,"k19":9,"k20":0,"k21":1,"k22":2,"k23":3,"k24":4,"k25":5,"k26":6,"k27":7,"k28":8,"k29":9,"k30":0,"k31":1,"k32":2,"k33":3,"k34":4,"k35":5,"k36":6,"k37":7,"k38":8,"k39":9}`)
	wideArr13 = []byte(`[0,1,2,3,4,5,6,7,8,9,0,1,2,3,4,5,6,7,8,9,0,1,2,3,4,5,6,7,8,9,0,1,2,3,4,5,6,7,8,9]`)
)

func checkExclusive(c *Ctx, cs *h.Case) {
	d := cs.Input
	p0 := refmodel.SkipWS(d, 0)
	tt := rjson.InvalidType
	if p0 < len(d) {
		tt = tokenTable(d[p0])
	}
	accepted := ""
	for _, f := range readFamilies {
		for i, fn := range f.fns {
			fn := fn
			name := f.fnn[i]
			c.Guarded(cs, name, func() {
				err := fn(d)
				c.Rec.Evals(1)
				if err != nil {
					return
				}
				c.Rec.C("typed_read_successes")
				if !f.ok(tt) {
					c.Rec.Violate(cs, name+" succeeds on a token of another type", name, fmt.Sprintf("error (token type is %v)", tt), "success")
				}
				if accepted != "" && accepted != f.name {
					c.Rec.Violate(cs, "two Read families accept the same input", name, "at most one of "+accepted+"/"+f.name, "both succeed")
				}
				accepted = f.name
			})
		}
	}
}

// C13: token classification, literal readers, type exclusivity.
func RunC13(c *Ctx) {
	processed := 0
	check := func(cs *h.Case) {
		checkTokens(c, cs)
		checkExclusive(c, cs)
		processed++
		if c.Rec.WantSample() && processed%9001 == 1 {
			tt, p, err := rjson.NextTokenType(cs.Input)
			c.Rec.Sample(map[string]interface{}{"input": h.Quote(cs.Input), "how": cs.Describe(), "NextTokenType": fmt.Sprintf("%v p=%d err=%s", tt, p, errStr(err))})
		}
	}
	if c.Replay != nil {
		check(&h.Case{Family: c.Replay.Family, Desc: c.Replay.Desc, Input: c.Replay.Input()})
		return
	}
	// the inputs live in read-only pages while the token functions and readers see them: a scanner that plants
	// a sentinel in the caller's slice and restores it afterwards gives single-threaded callers the right answer
	// and everybody who shares the bytes a wrong one; here the store faults (seeded change C13r10-m1)
	gr := newGuardRunner(c, 8<<20, "C13", check)
	defer gr.close()
	sink := func(cs *h.Case) {
		if !c.Mine(cs.Input) {
			return
		}
		c.Rec.R.Cases++
		c.Rec.R.Counters["family_"+cs.Family]++
		if len(cs.Input) > 0 {
			c.Rec.R.Nontrivial++
		}
		gr.add(cs)
	}
	// exhaustive table part: 85 whitespace prefixes x 256 next bytes x suffixes
	ws := []byte{' ', '\t', '\r', '\n'}
	var prefixes []string
	prefixes = append(prefixes, "")
	for _, a := range ws {
		prefixes = append(prefixes, string([]byte{a}))
		for _, b := range ws {
			prefixes = append(prefixes, string([]byte{a, b}))
			for _, e := range ws {
				prefixes = append(prefixes, string([]byte{a, b, e}))
			}
		}
	}
	cs := &h.Case{Family: "table"}
	for _, pre := range prefixes {
		cs.Input = []byte(pre)
		cs.Desc = fmt.Sprintf("whitespace only %q", pre)
		sink(cs)
		for b := 0; b < 256; b++ {
			for _, suf := range []string{"", "ull", " 1", "\""} {
				cs.Input = append(append([]byte(pre), byte(b)), suf...)
				cs.Desc = fmt.Sprintf("prefix %q byte 0x%02x suffix %q", pre, b, suf)
				sink(cs)
			}
		}
	}
	// non-JSON whitespace before a token
	for _, bad := range []string{"\f", "\v", "\x00", "\xa0", "\xef\xbb\xbf", "\x85", "\x1f", "\x7f", "\b"} {
		for _, tok := range []string{"null", "true", "false", "1", "\"a\"", "[]", "{}"} {
			for _, pre := range []string{"", " "} {
				cs.Input = []byte(pre + bad + tok)
				cs.Desc = "non-JSON whitespace before token"
				sink(cs)
			}
		}
	}
	workload.W1R(sink)
	workload.W1Words(sink)
	workload.W1First(sink)
	workload.W1RL(sink)
	workload.W1Uni(sink)
	nullVariants(sink)
	workload.W1(c.Thorough(), sink)
	workload.W1Len(func(cs *h.Case) {
		if cs.P[2] == 0 {
			sink(cs)
		}
	})
	n := 300000
	if c.Thorough() {
		n = 3000000
	}
	workload.W3(n/3, c.Seed, sink)
	// token soups
	alphabet := []byte("nulltruefalse0123456789-+.eE\"\\[]{}:, \t\r\n\x00\xffx")
	soup := &h.Case{Family: "soup"}
	for i := 0; i < n; i++ {
		r := workload.NewRand(c.Seed, uint64(i)+31000000)
		l := 1 + r.Intn(7)
		b := make([]byte, l)
		for j := range b {
			b[j] = alphabet[r.Intn(len(alphabet))]
		}
		soup.Input = b
		soup.Desc = fmt.Sprintf("token soup #%d", i)
		sink(soup)
	}
}

// rawStringTargets derives prior target values from the input itself: the raw bytes between the
// first two quotes (unescaped or not, well-formed or not), and the same with its last byte dropped.
func rawStringTargets(d []byte) []string {
	i := bytes.IndexByte(d, '"')
	if i < 0 {
		return nil
	}
	j := bytes.IndexByte(d[i+1:], '"')
	if j < 0 {
		return []string{string(d[i+1:])}
	}
	raw := string(d[i+1 : i+1+j])
	out := []string{raw}
	if len(raw) > 0 {
		out = append(out, raw[:len(raw)-1])
	}
	return out
}
