package monitor

import (
	h "verif/internal/harness"
)

// Spec describes how one property is decided.
type Spec struct {
	ID          string
	Run         func(*Ctx)
	Shards      int      // 0: default (one per core); 1: single process
	Binary      string   // "": plain build; "race": -race build
	Env         []string // extra environment for the workers
	Rule        string   // how cases are generated / what counts as non-trivial
	Assumptions []string
	MinEvals    int64            // floor on monitored executions for a quick run (x4 for thorough)
	MinCounters map[string]int64 // floors on specific event counters
	Exhaustive  string
	Post        func(rep *h.Report, tier string) // driver-side analysis over the merged report
}

var specs []*Spec

func register(s *Spec) { specs = append(specs, s) }

func Specs() []*Spec { return specs }

func SpecByID(id string) *Spec {
	for _, s := range specs {
		if s.ID == id {
			return s
		}
	}
	return nil
}

var commonAssumptions = []string{
	"the reference model (internal/refmodel, recursive descent) is correct; it is itself compared with encoding/json and strconv on every input and any disagreement makes the run inconclusive",
	"Go's runtime bounds/nil checks turn memory-safety faults into panics; workers are separate processes so a fatal error is attributed to the last logged case",
	"a clean run means: held on the executions counted here, nothing more",
}

func init() {
	register(&Spec{ID: "C01", Run: RunC01,
		Rule:        "inputs: W1 (every byte value replaced/inserted/appended at every position of ~1000 context x token seeds), W2 splice sample, W3 generated documents with injected faults, W4 depth-boundary documents (9,999/10,000/10,001 through every nesting site), W5 long tokens; distinct = distinct by 64-bit hash of the bytes; non-trivial = at least 2 bytes and the first non-whitespace byte can start a JSON value",
		Assumptions: commonAssumptions, MinEvals: 1500000,
		MinCounters: map[string]int64{"class_valid": 50000, "class_malformed": 200000, "family_W4": 100}})
	register(&Spec{ID: "C02", Run: RunC02,
		Rule:        "inputs: W1, W1F (every token followed by each of the 256 byte values in 5 contexts), W2 sample, W3, W4, W5; distinct by hash; non-trivial = at least 2 bytes and a plausible first token",
		Assumptions: commonAssumptions, MinEvals: 1500000,
		MinCounters: map[string]int64{"class_wellformed_first_value": 100000, "class_wellformed_with_following_bytes": 50000, "class_malformed": 200000}})
	register(&Spec{ID: "C11", Run: RunC11,
		Rule:        "inputs: W1, W1F, W2 sample, W3, W4, W5; distinct by hash; non-trivial = rjson.SkipValue succeeded (the property's precondition), so SkipValueFast's result was constrained",
		Assumptions: append([]string{"the precondition is taken from the real SkipValue (C02 decides whether that is right), so C11 is decided independently of the model"}, commonAssumptions...),
		MinEvals:    1000000,
		MinCounters: map[string]int64{"skipvalue_succeeded": 100000, "with_bracket_quote_or_backslash_inside_string": 10000}})
}
