package monitor

import (
	h "verif/internal/harness"
)

// Spec describes how one property is decided.
type Spec struct {
	ID             string
	Run            func(*Ctx)
	Shards         int      // 0: default (one per core); 1: single process
	Binary         string   // "": plain build; "race": -race build
	No386Sample    bool     // true: no sampled 32-bit pass (race build, allocation measurements)
	Extra386Shards int      // >0: the same workload once more, on this many shards, with a GOARCH=386 build (int and uint are 32 bits wide there)
	Env            []string // extra environment for the workers
	Rule           string   // how cases are generated / what counts as non-trivial
	Assumptions    []string
	MinEvals       int64            // floor on monitored executions for a quick run (x4 for thorough)
	MinCounters    map[string]int64 // floors on specific event counters
	Exhaustive     string
	Post           func(rep *h.Report, tier string)               // driver-side analysis over the merged report
	Collect        func(runDir string, rep *h.Report, seed int64) // driver-side collection of artefacts the workers left in runDir
	ShardsThorough int
	StallSeconds   int      // >0: a worker that starts no new case for this long is treated as hung (C10)
	CoverFuncs     []string // rjson functions whose block coverage is reported as evidence
}

var specs []*Spec

// ruleAddenda: what was added to a check after its rule text was written (DESIGN.md section 10); the
// evidence files quote rule + addendum.
var ruleAddenda = map[string]string{
	"docs": "; plus the structured product families of DESIGN.md section 4 (whitespace runs outside and inside containers up to 4,096 bytes, digit runs, every unit length 1..600 and counter-wrap boundaries, number-grammar and escape-pair products, every depth 1..130 and every nest unit as the last opener also at 10,000/10,001, widths and sibling size patterns, first bytes x foreign continuations, every byte value adjacent to special string elements, strings of 100..8,192 bytes and of power-of-two lengths, multi-byte characters that look like whitespace or structure); record documents (family W11: repeating key sets, confusable keys, repeating columns, pretty-printed layouts) wherever W3 runs",
	"C01":  "; the Buffer states are nil, fresh, long-lived and one left dirty by handler traversals deeper than the limit; 24 concurrent callers are compared with the same call alone",
	"C02":  "; four Buffer states; 24 concurrent callers are compared with the same call alone",
	"C11":  "; four Buffer states, the long-lived one shared with SkipValue; SkipValue successes that need a used Buffer are in scope; concurrent callers compared with the same call alone",
	"C03":  "; the caller modifies results and fills the spare capacity of returned slices now and then; special number literals inside documents",
	"C04":  "; whitespace-prefix lengths 3..24, a long tail after the literal, ties followed by zero runs around the 800-digit capacity, zero runs undone by five- and six-digit exponents (exact oracle)",
	"C05":  "; every token also as a cap==len copy, a copy with more digits in the spare capacity and with a long tail; long whitespace runs; first bytes x foreign continuations",
	"C06":  "; long tokens (3,000 and 70,000 bytes), long position sweeps, adjacent-byte sweeps, scratch shapes nil / dirty / lazily grown / 128 KiB with returned strings held across reuse, small dirty destinations for UnescapeStringContent, targets correlated with the raw input",
	"C07":  "; handlers that find the exact end with SkipValue on the traversal's own Buffer; the handler's own error is a sentinel or a wrapped io.EOF",
	"C08":  "; the decoders keep a long-lived skip Buffer (which has seen hostile documents) and a long-lived field-name scratch across documents; nullable Decode variants with preset targets; direct decoding also through a long-lived ValueReader, all three entry points in either order",
	"C09":  "; standard-library and wrapped errors; every fourth program's handler also uses the traversal's own Buffer before it answers; structured standard-library errors (*json.UnmarshalTypeError, *strconv.NumError, ...) whose contents are watched; another call on the same document and Buffer before the traversal",
	"C10":  "; reader forms primed by a non-empty or a failed read; ValueReader's handler methods called directly; every third hostile program re-enters the library from inside the callback with the traversal's own Buffer",
	"C12":  "; cap==len and baited copies; a DecodeString target stored earlier through the same scratch; a 128 KiB scratch; long tokens; once more on a GOARCH=386 build",
	"C13":  "; token functions also on cap==len and baited copies; the methods of one long-lived ValueReader in the Read families; long whitespace runs, first bytes x foreign continuations, multi-byte look-alikes; the inputs live in read-only pages",
	"C14":  "; documents of a history arrive in one refilled input buffer; recursive walkers; every fifth history continues on a Buffer that lives as long as the worker; forced garbage collections between the calls of one history in 37",
	"C15":  "; results are also compared with the model tree; returned strings are watched too; the caller fills spare capacity and modifies older results; limit-, size- and related-document-themed histories; forced garbage collections between the calls of one history in 13; record-themed histories; same-length sibling documents through the refilled input buffer",
	"C16":  "; the ValueReader's own scratch must not matter (a reader used on every earlier input vs a brand-new one); spare capacity of returned slices overwritten; strings returned without scratch re-read after the input is overwritten; the StdLibCompatible helpers must leave their argument tree alone; same-length sibling documents through a refilled input buffer",
	"C17":  "; window-straddling characters in long strings; destinations ending in incomplete sequences; 16 concurrent callers compared with the model; the spare capacity of the helpers' results overwritten; sequences of long strings around every power of two from 256 to 131,072 in one tree",
	"C18":  "; goroutine pairs share arenas of disjoint windows; decoded trees shared read-only are converted concurrently and the copies modified; strings beyond 64 KiB and a 9,000-deep document in the pool; record documents in the pool",
	"C19":  "; in-place unescaping; inputs in the caller's stack frame; skipping handlers that share the traversal's Buffer",
	"C20":  "; a handler collecting all strings in one destination; nullable string fields; mixed entry points on one Buffer and on one reader; content-flavoured families (invalid UTF-8 below deep nesting, slow-path numbers in bulk, integers around the int64 limit)",
}

func register(s *Spec) {
	switch s.ID {
	case "C01", "C02", "C03", "C07", "C08", "C11":
		s.Rule += ruleAddenda["docs"]
	}
	s.Rule += ruleAddenda[s.ID]
	specs = append(specs, s)
}

func Specs() []*Spec { return specs }

func SpecByID(id string) *Spec {
	for _, s := range specs {
		if s.ID == id {
			return s
		}
	}
	return nil
}

var commonAssumptions = []string{
	"the reference model (internal/refmodel, recursive descent) is correct; it is itself compared with encoding/json and strconv on every input and any disagreement makes the run inconclusive",
	"Go's runtime bounds/nil checks turn memory-safety faults into panics; workers are separate processes so a fatal error is attributed to the last logged case",
	"a clean run means: held on the executions counted here, nothing more",
}

func init() {
	register(&Spec{ID: "C01", Run: RunC01,
		Rule:        "inputs: W1 (every byte value replaced/inserted/appended at every position of ~1000 context x token seeds), W2 splice sample, W3 generated documents with injected faults, W4 depth-boundary documents (9,999/10,000/10,001 through every nesting site), W5 long tokens; distinct = distinct by 64-bit hash of the bytes; non-trivial = at least 2 bytes and the first non-whitespace byte can start a JSON value",
		Assumptions: commonAssumptions, MinEvals: 1500000,
		MinCounters: map[string]int64{"class_valid": 50000, "class_malformed": 200000, "family_W4": 100}})
	register(&Spec{ID: "C02", Run: RunC02,
		Rule:        "inputs: W1, W1F (every token followed by each of the 256 byte values in 5 contexts), W2 sample, W3, W4, W5; distinct by hash; non-trivial = at least 2 bytes and a plausible first token",
		Assumptions: commonAssumptions, MinEvals: 1500000,
		MinCounters: map[string]int64{"class_wellformed_first_value": 100000, "class_wellformed_with_following_bytes": 50000, "class_malformed": 200000}})
	register(&Spec{ID: "C11", Run: RunC11,
		Rule:        "inputs: W1, W1F, W2 sample, W3, W4, W5; distinct by hash; non-trivial = rjson.SkipValue succeeded (the property's precondition), so SkipValueFast's result was constrained",
		Assumptions: append([]string{"the precondition is taken from the real SkipValue (C02 decides whether that is right), so C11 is decided independently of the model"}, commonAssumptions...),
		MinEvals:    1000000,
		MinCounters: map[string]int64{"skipvalue_succeeded": 100000, "with_bracket_quote_or_backslash_inside_string": 10000}})
}

func init() {
	register(&Spec{ID: "C03", Run: RunC03,
		Rule:        "inputs: W3 generated documents (duplicate/escaped keys, empty containers, invalid UTF-8, faults), W1 byte sweep, W4 depth boundary, W2 splice sample, W5; each through ReadValue, fresh and long-lived ValueReader.ReadValue/ReadObject/ReadArray and package ReadObject/ReadArray; distinct by input hash; non-trivial = the model parses the first value as an array or object (a tree is actually built)",
		Assumptions: commonAssumptions, MinEvals: 3000000,
		MinCounters: map[string]int64{"trees_compared": 500000, "expected_failures_observed": 500000, "duplicate_keys": 200, "escaped_keys": 200}})
	register(&Spec{ID: "C04", Run: RunC04,
		Rule:        "inputs: W6b (per Eisel-Lemire table row -348..347: decimals of 17-19 digits straddling an exact float midpoint), W6c (random floats x exact midpoint expansion truncated to 15..770 digits, +-1 in the last place, six spellings, >800-digit sticky tails), W6e (every exponent -400..400), W6s (overflow threshold at every length, subnormal halves, zeros, long exponents, classic hard cases); each literal with followers/whitespace through ReadFloat64, DecodeFloat64 and ReadValue; the generated families are sharded by generator index and de-duplicated by literal hash within each shard (cross-shard duplicates are negligible for these long literals); non-trivial = more than 15 significant digits or an exponent part",
		Assumptions: append([]string{"oracle: strconv.ParseFloat; a 2% sample is re-derived with exact big.Rat arithmetic (ties-to-even) and a disagreement makes the run inconclusive; literals whose integer part has more than 800 digits are decided by the exact big.Rat computation alone, because strconv itself is wrong there"}, commonAssumptions...),
		MinEvals:    800000,
		MinCounters: map[string]int64{"digits_17_to_19": 100000, "digits_20_to_800": 50000, "digits_over_800": 500, "expect_range_error": 1000, "expect_subnormal": 2000, "oracle_rechecked_with_exact_rational_arithmetic": 3000, "oracle_is_exact_rational_arithmetic_where_strconv_is_known_to_be_wrong": 300}})
	register(&Spec{ID: "C05", Run: RunC05, Extra386Shards: 4,
		Rule:        "inputs: W6a (every value within a window of each type bound and each 18/19/20-digit switch-over point x 3 whitespace prefixes x 21 followers, hand shapes, random digit strings of 1-40 digits) and the W1 byte sweep of top-level tokens; each through all six Read* and six Decode* integer functions against a math/big model, once on the native 64-bit build and once more on a GOARCH=386 build of checker and library (int and uint are 32 bits wide there and take other code paths; the notes say whether that pass ran); distinct by input hash (the 32-bit pass re-runs the same inputs: it adds executions, not distinct cases); non-trivial = input starts (after whitespace and optional '-') with a digit",
		Assumptions: commonAssumptions, MinEvals: 3000000,
		MinCounters: map[string]int64{"expect_success_Int64": 50000, "expect_error_Int64": 50000, "expect_success_Uint32": 10000, "expect_error_Uint64": 50000}})
}

func init() {
	register(&Spec{ID: "C06", Run: RunC06,
		Rule:        "inputs: W7 (all 65,536 \\uXXXX units in 3 hex spellings and 3 shapes; every high surrogate x 15 partners, every low x 6, a (high,low) grid; every byte value replaced/inserted/appended at every position of 12 string templates in 12 contexts; generated strings), the W1 sweep of top-level tokens and W5 long strings; each through ReadStringBytes (nil and destinations of capacities 0..need+4), ReadString (nil / dirty scratch), DecodeString and UnescapeStringContent on the content span; distinct by hash; non-trivial = contains a backslash, a byte >= 0x80 or a control byte",
		Assumptions: commonAssumptions, MinEvals: 5000000,
		MinCounters: map[string]int64{"wellformed_tokens": 300000, "malformed_tokens": 300000, "tokens_with_unicode_escapes": 150000, "growth_boundary_calls": 1000000}})
	register(&Spec{ID: "C12", Run: RunC12, Extra386Shards: 4,
		Rule:        "inputs: the literals null/true/false with every one-byte replacement, insertion and truncation in 36 contexts, the W1 sweep of top-level tokens, W6 integer and float literals, generated strings; each through all nine Decode* functions (DecodeString with and without scratch) with two different sentinel target values; expected outcome derived from the corresponding Read* result and an independent null-prefix test; distinct by hash; non-trivial = input is not empty/all-whitespace",
		Assumptions: append([]string{"the reader half of the relation is the real Read* function (C04/C05/C06/C13 decide whether that is right)"}, commonAssumptions...),
		MinEvals:    5000000,
		MinCounters: map[string]int64{"outcome_value_stored": 200000, "outcome_null_target_untouched": 20000, "outcome_error_target_untouched": 1000000}})
	register(&Spec{ID: "C13", Run: RunC13,
		Rule:        "inputs: EXHAUSTIVE table part = all 85 whitespace prefixes of length <= 3 over {SP,HT,CR,LF} x all 256 next bytes x 4 suffixes; every one-byte replacement/insertion/truncation of null/true/false in 36 contexts; non-JSON whitespace before tokens; the W1 sweep, W3 documents and random token soups for exclusivity; distinct by hash; non-trivial = non-empty input",
		Assumptions: commonAssumptions, MinEvals: 5000000,
		Exhaustive:  "token table: every whitespace prefix of length <= 3 x every byte value (85 x 256 x 4 inputs) is enumerated completely",
		MinCounters: map[string]int64{"end_of_input_cases": 85, "literal_null_accepted": 1000, "literal_true_accepted": 1000, "literal_false_accepted": 1000, "typed_read_successes": 500000}})
}

func init() {
	register(&Spec{ID: "C07", Run: RunC07,
		Rule:        "inputs: W1 sweep, W3 documents, W4 depth boundary (<= 10,000 only), W2 sample, W5; each traversed by HandleArrayValues and HandleObjectValues with a logging probe handler under every mask of 'return 0 / return the exact end' answers (all 2^m masks for m <= 8 callbacks, else 8 masks), nil and reused buffers; the callback log (absolute offset, aliasing with the document, raw key bytes) is checked offline against the model's member list; distinct inputs by hash; non-trivial = (document, traversal kind) pairs in which at least one callback happened",
		Assumptions: append([]string{"'exact end' answers are computed by the reference model on the data the handler was given; for a member the model cannot parse, the handler returns its own error (the property's 'propagating any error of its own')"}, commonAssumptions...),
		MinEvals:    5000000,
		MinCounters: map[string]int64{"callbacks_observed": 5000000, "successful_traversals_checked": 500000, "members_string": 100000, "members_array": 50000, "members_object": 50000, "members_number": 100000}})
	register(&Spec{ID: "C08", Run: RunC08,
		Rule:        "inputs: W3, W1, W4 (<= 10,000 deep), W2 sample; for each, direct ReadValue vs 4 (quick) / 10 (thorough) API-composition decoders whose per-value choices (typed reader variant, Decode*, SkipValue, SkipValueFast, return 0, nested Handle*Values with nil or shared buffer, keys via UnescapeStringContent) are drawn from a PRNG seeded by the input; programs 0-1 read everything; distinct inputs by hash; non-trivial = direct decoding succeeded with an array or object at top level",
		Assumptions: commonAssumptions, MinEvals: 3000000,
		MinCounters: map[string]int64{"direct_decoding_succeeded": 300000, "direct_decoding_failed": 300000, "api_calls_HandleArrayValues": 100000, "api_calls_HandleObjectValues": 100000, "api_calls_SkipValueFast": 20000, "api_calls_return 0": 10000}})
	register(&Spec{ID: "C09", Run: RunC09,
		Rule:        "inputs: W3, W1, W4, W5; for each document and both traversals, a probe handler that fails at call k (every k for <= 8 callbacks) with a unique sentinel error - or, every third time, one of ~20 error VALUES the library itself returns (as a handler that delegates to SkipValue / a nested traversal / a reader would), or a typed-nil error - and an accompanying offset from {0,1,-1,exact,len,len+1,MaxInt,MaxInt-1,MinInt,exact/2,-len}; earlier calls alternate between declining and exact skipping; distinct inputs by hash; non-trivial = (document, traversal kind) pairs with at least one callback",
		Assumptions: commonAssumptions, MinEvals: 3000000,
		MinCounters: map[string]int64{"error_returns_observed": 2000000, "handler_returned_a_library_error_value": 500000, "failing_member_string": 50000, "failing_member_number": 50000, "failing_member_array": 50000, "failing_member_object": 50000, "failing_member_null": 20000, "failing_member_bool": 20000}})
	register(&Spec{ID: "C10", Run: RunC10, StallSeconds: 120,
		Rule:        "inputs (held in read-only guard pages): raw random bytes and structural soups, a fifth of the W1 sweep rotating with the seed (all of it in thorough), W3, W4 incl. depth 10,001+, W2 sample, W5 megabyte tokens and 1,048,576-deep nestings, number literals with every decimal exponent -400..400 and the float thresholds, every surrogate escape and a sample of the string-template sweep; each through every exported function (45 call forms; nil/fresh/long-lived buffers, one long-lived ValueReader; short inputs a second time with plausible continuations planted in the spare capacity behind len(data), results must not change) and through both traversals under 6 (quick) / 16 (thorough) hostile handler programs returning negative, beyond-end, near-MaxInt, MinInt, off-by-one and mid-token offsets; distinct by hash; non-trivial = at least 2 bytes",
		Assumptions: append([]string{"non-termination is detected by a stall watchdog (no new case for 120 s) confirmed by a single-case replay under a 10-minute limit; a fired-but-unconfirmed watchdog is inconclusive"}, commonAssumptions...),
		MinEvals:    20000000,
		MinCounters: map[string]int64{"hostile_programs_run": 5000000, "out_of_range_offsets_that_must_be_reported": 500000, "hostile_offsets_near_maxint": 100000, "hostile_offsets_negative": 100000, "hostile_offsets_mid_token": 100000, "inputs_in_read_only_pages": 1000000}})
}

func init() {
	register(&Spec{ID: "C14", Run: RunC14,
		Rule:        "cases are call histories (W9): 20-200 calls over ONE Buffer mixing Valid, SkipValue, SkipValueFast, HandleArrayValues, HandleObjectValues on generated/faulty/truncated documents and nestings of depth 1..2,000 and 9,999..10,002, with handler programs decline / exact / mixed / error-at-k / garbage-offset-at-k / re-entrant (the handler calls back into any of the five functions with the very Buffer of the enclosing call, recursively to 4 levels); every call is executed a second time with no buffer and the two transcripts (results, errors, complete callback logs, nested calls) must be identical; distinct = histories; every history is non-trivial",
		Assumptions: commonAssumptions, MinEvals: 300000,
		MinCounters: map[string]int64{"calls_with_reentrant_sharing": 10000, "outcome_ok": 50000, "outcome_syntax-error": 20000, "outcome_handler-abort": 5000, "outcome_depth-limit": 300, "outcome_garbage-offset": 1000, "max_stack_buffer_len_seen": 10000}})
	register(&Spec{ID: "C15", Run: RunC15,
		Rule:        "cases are call histories: 20-70 ReadValue/ReadObject/ReadArray calls on ONE ValueReader over generated/faulty/truncated documents and nestings up to and beyond the depth limit; every result is compared with a brand-new reader's; up to 12 earlier container results are kept under watch with deep snapshots that are re-verified after every later call and after the harness scribbles over the latest result (overwrites elements, writes into spare capacity, appends, adds/deletes keys); distinct = histories; every history is non-trivial",
		Assumptions: commonAssumptions, MinEvals: 400000,
		MinCounters: map[string]int64{"snapshots_reverified": 1000000, "caller_modifications_of_latest_result": 20000, "outcome_error": 50000, "outcome_error-on-deep-document": 60, "outcome_ok": 100000}})
	register(&Spec{ID: "C16", Run: RunC16,
		Rule:        "inputs (W7 strings, surrogates, W3 documents, a twelfth of the W1 sweep, W5) are held in PROT_READ guard pages while every exported function and both traversals run (a store faults); string tokens additionally go through ReadStringBytes/UnescapeStringContent/StdLibCompatibleStringBytes with 35 destination shapes (len 0..17, spare capacity 0..2*need+5, random contents and random garbage in the spare capacity) and ReadString/DecodeString with 12 dirty scratch shapes; SkipValue/SkipValueFast/Valid with no Buffer, a long-lived Buffer and a Buffer grown and left dirty by deep handler traversals (incl. depth-boundary documents) must agree; returned strings and trees are re-read after the harness overwrites the input copy, the scratch (full capacity) and reuses the reader; distinct by input hash; non-trivial = input contains a double quote",
		Assumptions: append([]string{"write detection relies on mprotect(PROT_READ) + debug.SetPanicOnFault"}, commonAssumptions...),
		MinEvals:    10000000,
		MinCounters: map[string]int64{"inputs_in_read_only_pages": 100000, "append_semantics_calls": 2000000, "scratch_independence_calls": 500000, "returned_strings_rechecked_after_overwrites": 300000, "returned_trees_rechecked_after_overwrites": 100000, "buffer_independence_comparisons": 100000}})
	register(&Spec{ID: "C17", Run: RunC17,
		Rule:        "EXHAUSTIVE: every 0-, 1- and 2-byte string and every 3-byte string with a lead byte >= 0x80 (8,454,401 strings); plus a position sweep (one or two invalid bytes at every offset of plain strings of every length 1..72), generated 4-byte boundary sequences and longer strings, generated value trees with invalid UTF-8 in strings and keys at every depth (argument snapshot compared, result scribbled to expose shared containers), and W3 documents decoded by ReadValue and compared with encoding/json when no keys collide; distinct by construction; non-trivial = not valid UTF-8 (strings), every tree, every compared document",
		Assumptions: commonAssumptions, MinEvals: 10000000,
		Exhaustive:  "all byte strings of length <= 2 and all 3-byte strings with lead byte >= 0x80 are enumerated completely in both tiers",
		MinCounters: map[string]int64{"exhaustive_space_completed": 1, "position_sweep_cases": 50000, "invalid_utf8_replaced": 5000000, "valid_utf8_identity_checked": 50000, "trees_converted": 50000, "deep_trees_converted": 7, "decoded_documents_compared_with_encoding_json": 10000}})
}

func init() {
	register(&Spec{ID: "C18", Run: RunC18, No386Sample: true, Binary: "race", Shards: 3, ShardsThorough: 10,
		Env:         []string{"GORACE=halt_on_error=0 exitcode=0 log_path=$RUNDIR/race"},
		Collect:     func(runDir string, rep *h.Report, seed int64) { CollectRaceReports(runDir, rep, "C18", seed) },
		Rule:        "each shard is one process built with -race at a different GOMAXPROCS (2, 8, 16, ...): 32 goroutines each run a seeded script of 1,500 (quick) / 12,000 (thorough) calls drawn from 30 operations covering the whole API, with goroutine-private Buffer/ValueReader/scratch/destination and SHARED inputs held in read-only pages; pass 1 has no harness synchronisation between calls, pass 2 records which functions were simultaneously active; every call's result hash is compared with the same script replayed sequentially; race reports are read from the detector's log; a case = one concurrent call; all are non-trivial",
		Assumptions: append([]string{"the race detector only sees accesses that happen during the run; it is happens-before based, so it does not need a lucky interleaving to report an unsynchronised shared location that two goroutines touch"}, commonAssumptions...),
		MinEvals:    200000,
		MinCounters: map[string]int64{"concurrent_calls_pure_pass": 100000, "max_distinct_co_active_function_pairs_in_one_run": 100, "race_detector_log_files": 0}})
}

func init() {
	register(&Spec{ID: "C19", Run: RunC19, No386Sample: true, Shards: 4, Env: []string{"GOMAXPROCS=1"},
		Rule:        "each case is one successful input for one group of functions: number literals on every conversion path (W6 midpoint neighbours incl. >19-digit and >800-digit slow-path cases, per-row cases, specials, integer boundaries) for the 7 Read* and 7 Decode* numeric functions; literals for ReadBool/ReadNull/DecodeBool and Decode*(null); every byte after 3 whitespace prefixes for NextToken/NextTokenType; W7 string tokens (every escape kind, surrogates, long strings) for ReadStringBytes (spare capacity exactly the input length, empty and non-empty destination) and UnescapeStringContent; W3 valid documents, W4 nestings of depth 3..10,000, W5 long documents and the W1 seeds for SkipValue/SkipValueFast/Valid/HandleArrayValues/HandleObjectValues with a Buffer warmed by the same call and zero-size declining or non-allocating skipping handlers; per (function,input): runtime.MemStats.Mallocs around 20 calls, three times, GC off, GOMAXPROCS=1; violation iff all three runs show >= 20 allocations; PLUS histories: warm-up, then a disturbance of the Buffer (a traversal stopped by a handler error at call 0..3, garbage offsets, truncated / malformed documents, the other functions, re-entrant sharing), then ONE successful call measured alone, the whole history three times, for 5 buffer-taking functions x 13 disturbances x ~140 documents; distinct by input hash / history; all non-trivial",
		Assumptions: append([]string{"a call that fails is outside the property and is skipped (counted)", "sporadic runtime-internal allocations (fewer than one per call) are tolerated and counted"}, commonAssumptions...),
		MinEvals:    1000000,
		MinCounters: map[string]int64{"zero_allocation_measurements": 30000, "measured_ReadFloat64": 3000, "measured_SkipValue": 1000, "measured_HandleArrayValues": 300, "measured_HandleObjectValues": 300, "measured_ReadStringBytes": 2000, "measured_UnescapeStringContent": 1000, "measured_ReadInt64": 300, "measured_Valid": 1000, "history_measurements": 2000}})
}

func init() {
	register(&Spec{ID: "C20", Run: RunC20, No386Sample: true, Shards: 8, Env: []string{"GOMAXPROCS=1"},
		Rule:        "cases are (i) growth series: 64 adversarial document families (incl. the 24-shape hint-propagation product grandparent x parent x elder sibling x child) (a large container followed by many small siblings as array elements / object values / two levels down, failing siblings, escapes at every nesting level, many short escaped strings or keys, deep arrays/objects/mixtures up to depth 9,600, flat and long tokens, long runs of \\u escapes and surrogate pairs in values and keys) x 8 entry points (ReadValue, reused ValueReader, Valid and SkipValue with nil/reused buffer, SkipValueFast, Handle*Values with a declining and with a re-entrant decoding handler), each measured with runtime.MemStats.TotalAlloc at n, 2n, 4n; and (ii) histories: 10 large documents x 11 small/failing documents x 9 reused-reader/buffer entry points (incl. mixed entry points on one reader), one large call followed by 300 (quick) / 3,000 (thorough) small calls, each measured separately; GOMAXPROCS=1 and GC off during each measurement make the figures reproducible; every series and history is a distinct non-trivial case",
		Assumptions: append([]string{"'a fixed constant multiple' is judged with explicit thresholds recorded in the evidence samples: growth ratio < 2.5 over a 4x size step for series allocating >= 256 KB, <= 16 KB per input byte + 1 MB absolutely, and <= 64 bytes per input byte + 8 KB for every small call after the third one following a large document"}, commonAssumptions...),
		MinEvals:    50000,
		MinCounters: map[string]int64{"growth_series_measured": 400, "growth_series_judged": 20, "histories_measured": 900}})
}

func init() {
	skip := []string{"skipValue", "skipFloatDec", "skipFloatExp", "countWhitespace", "Valid", "SkipValue"}
	set := func(id string, fns ...string) { SpecByID(id).CoverFuncs = fns }
	set("C01", skip...)
	set("C02", skip...)
	set("C11", "skipValueFast", "SkipValueFast")
	set("C03", "ValueReader.ReadValue", "ValueReader.ReadObject", "ValueReader.ReadArray", "ValueReader.HandleArrayValue", "ValueReader.HandleObjectValue", "ValueReader.readSimpleValue", "ValueReader.borrowValueReader", "handleArrayValues", "handleObjectValues")
	set("C04", "ParseJSONFloatPrefix", "readFloat", "atof64exact", "eiselLemire64", "decimal.set", "decimal.floatBits", "decimal.Shift", "decimal.RoundedInteger", "rightShift", "leftShift", "prefixIsLessThan", "shouldRoundUp", "trim", "ReadFloat64")
	set("C05", "ReadUint64", "ReadInt64", "ReadInt32", "ReadUint32", "ReadInt", "ReadUint")
	set("C06", "ReadStringBytes", "ReadString", "appendRemainderOfString", "unescapeStringContent", "unescapeUnicodeChar", "getu4", "growBytesSliceCapacity")
	set("C07", "handleArrayValues", "handleObjectValues")
	set("C08", "handleArrayValues", "handleObjectValues", "skipValue", "skipValueFast", "appendRemainderOfString", "unescapeStringContent", "readNull", "readBool")
	set("C09", "handleArrayValues", "handleObjectValues")
	set("C10", "handleArrayValues", "handleObjectValues", "skipValue", "skipValueFast", "appendRemainderOfString", "unescapeStringContent", "unescapeUnicodeChar", "getu4", "readNull", "readBool", "readFloat", "ReadUint64", "StdLibCompatibleStringBytes")
	set("C12", "DecodeBool", "DecodeFloat64", "DecodeInt64", "DecodeInt32", "DecodeInt", "DecodeUint64", "DecodeUint32", "DecodeUint", "DecodeString", "nullOrBust")
	set("C13", "NextToken", "NextTokenType", "readNull", "readBool", "countWhitespace")
	set("C14", "handleArrayValues", "handleObjectValues", "skipValue", "skipValueFast")
	set("C15", "ValueReader.ReadValue", "ValueReader.ReadObject", "ValueReader.ReadArray", "ValueReader.HandleArrayValue", "ValueReader.HandleObjectValue", "ValueReader.borrowValueReader", "ValueReader.returnValueReader")
	set("C16", "ReadStringBytes", "ReadString", "appendRemainderOfString", "unescapeStringContent", "unescapeUnicodeChar", "growBytesSliceCapacity", "StdLibCompatibleStringBytes")
	set("C17", "StdLibCompatibleString", "StdLibCompatibleStringBytes", "StdLibCompatibleSlice", "StdLibCompatibleMap")
}
