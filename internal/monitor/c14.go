package monitor

import (
	"bytes"
	"fmt"
	"reflect"
	"runtime"
	"strings"

	"github.com/willabides/rjson"

	h "verif/internal/harness"
	"verif/internal/refmodel"
	"verif/internal/workload"
)

var bufFnNames = [...]string{"Valid", "SkipValue", "SkipValueFast", "HandleArrayValues", "HandleObjectValues"}

// hprog is a deterministic handler program: its answers depend only on (program, call
// index, nesting level, data), never on the buffer.
type hprog struct {
	kind    int // 0 decline all, 1 exact all, 2 mixed mask, 3 error at k, 4 garbage offset at k, 5 re-entrant
	k       int
	garbage int
	mask    uint64
	seed    uint64
}

var progNames = [...]string{"decline", "exact", "mixed", "error-at-k", "garbage-offset-at-k", "re-entrant", "recursive-walker"}

type bufCall struct {
	fn   int
	doc  []byte
	prog hprog
}

type transcript struct {
	b        bytes.Buffer
	calls    int
	maxLevel int
	lines    int
}

func (t *transcript) add(format string, a ...interface{}) {
	t.lines++
	if t.lines > 3000 { // bounded; equality of the first 3000 events plus the totals decides
		return
	}
	fmt.Fprintf(&t.b, format, a...)
	t.b.WriteByte('\n')
}

var errHandlerAbort = &sentinelErr{id: 99}

// execBufCall runs one call with buffer buf (nil or the shared one); re-entrant handlers
// pass the very same buf down. Everything observable goes to the transcript.
func execBufCall(t *transcript, call *bufCall, data []byte, buf *rjson.Buffer, level int) (p int, err error) {
	t.calls++
	if level > t.maxLevel {
		t.maxLevel = level
	}
	switch call.fn {
	case 0:
		ok := rjson.Valid(data, buf)
		t.add("L%d Valid -> %v", level, ok)
		if !ok {
			return 0, errHandlerAbort
		}
		return 0, nil
	case 1:
		p, err = rjson.SkipValue(data, buf)
	case 2:
		p, err = rjson.SkipValueFast(data, buf)
	case 3, 4:
		i := 0
		answer := func(key, d []byte) (int, error) {
			idx := i
			i++
			ret, e := progAnswer(t, call, idx, key, d, buf, level)
			t.add("L%d cb#%d off=%d key=%q ret=%d err=%v", level, idx, len(data)-len(d), key, ret, e != nil)
			return ret, e
		}
		if call.fn == 3 {
			p, err = rjson.HandleArrayValues(data, rjson.ArrayValueHandlerFunc(func(d []byte) (int, error) { return answer(nil, d) }), buf)
		} else {
			p, err = rjson.HandleObjectValues(data, rjson.ObjectValueHandlerFunc(func(k, d []byte) (int, error) { return answer(k, d) }), buf)
		}
	}
	t.add("L%d %s -> p=%d err=%s", level, bufFnNames[call.fn], p, errStr(err))
	return p, err
}

func progAnswer(t *transcript, call *bufCall, idx int, key, d []byte, buf *rjson.Buffer, level int) (int, error) {
	pg := &call.prog
	exact := func() (int, bool) {
		n, ok := refmodel.ParseValueLimit(d, 0)
		if !ok {
			return 0, false
		}
		return n.End, true
	}
	switch pg.kind {
	case 0:
		return 0, nil
	case 1:
		if e, ok := exact(); ok {
			return e, nil
		}
		return 0, errHandlerAbort
	case 2:
		if pg.mask>>(uint(idx)%64)&1 == 1 {
			if e, ok := exact(); ok {
				return e, nil
			}
		}
		return 0, nil
	case 3:
		if idx == pg.k {
			return 0, errHandlerAbort
		}
		return 0, nil
	case 4:
		if idx == pg.k {
			return pg.garbage, nil
		}
		return 0, nil
	}
	if pg.kind == 6 {
		// recursive walker: every container member is traversed by a nested Handle*Values call that
		// shares the enclosing call's Buffer, all the way down (thousands of live levels of
		// re-entry for deep documents; seeded change C14r4-m1 limited re-entry to 1,000 per Buffer)
		q := refmodel.SkipWS(d, 0)
		if q < len(d) && (d[q] == '[' || d[q] == '{') {
			inner := &bufCall{fn: 3, prog: hprog{kind: 6}}
			if d[q] == '{' {
				inner.fn = 4
			}
			p, err := execBufCall(t, inner, d, buf, level+1)
			if err != nil {
				return 0, errHandlerAbort
			}
			return p, nil
		}
		return 0, nil
	}
	// re-entrant: call back into the library with the same buffer as the enclosing call
	r := workload.NewRand(int64(pg.seed), uint64(idx)*31+uint64(level))
	if level >= 4 {
		return 0, nil
	}
	inner := &bufCall{fn: r.Intn(5), prog: hprog{kind: r.Intn(6), k: r.Intn(3), garbage: []int{-1, off40, len(d) + 1, 1}[r.Intn(4)], mask: r.Uint64(), seed: r.Uint64()}}
	// make the nested traversal kind match the member when it is a container, usually
	if len(d) > 0 && r.Intn(4) != 0 {
		switch d[refmodel.SkipWS(d, 0)%len(d)] {
		case '[':
			if inner.fn >= 3 {
				inner.fn = 3
			}
		case '{':
			if inner.fn >= 3 {
				inner.fn = 4
			}
		}
	}
	p, err := execBufCall(t, inner, d, buf, level+1)
	switch r.Intn(4) {
	case 0:
		return 0, nil // decline after looking
	case 1:
		if err != nil {
			return 0, errHandlerAbort // abort the enclosing traversal from inside
		}
	}
	if err != nil || inner.fn == 0 {
		return 0, nil
	}
	return p, nil
}

func stackLen(b *rjson.Buffer) int {
	v := reflect.ValueOf(b).Elem()
	if v.NumField() == 0 {
		return -1
	}
	f := v.Field(0)
	if f.Kind() != reflect.Slice {
		return -1
	}
	return f.Len()
}

func outcomeKind(p int, err error, fn int, tr string) string {
	if err == nil {
		return "ok"
	}
	msg := err.Error()
	switch {
	case err == error(errHandlerAbort):
		if fn == 0 {
			return "invalid"
		}
		return "handler-abort"
	case strings.Contains(msg, "depth"):
		return "depth-limit"
	case strings.Contains(msg, "out of range"):
		return "garbage-offset"
	}
	return "syntax-error"
}

func genHistory(seed int64, index uint64, allowHuge bool) []bufCall {
	r := workload.NewRand(seed, index+400000000)
	n := 20 + r.Intn(60)
	if index%25 == 0 {
		n = 120 + r.Intn(80)
	}
	calls := make([]bufCall, n)
	for i := range calls {
		doc, _ := workload.HistDoc(r, seed, allowHuge && i%7 == 3)
		c := &calls[i]
		c.doc = doc
		c.fn = r.Intn(5)
		if r.Intn(3) == 0 { // often traverse with the matching kind
			p := refmodel.SkipWS(doc, 0)
			if p < len(doc) && doc[p] == '[' {
				c.fn = 3
			} else if p < len(doc) && doc[p] == '{' {
				c.fn = 4
			}
		}
		kind := r.Intn(6)
		if r.Intn(3) == 0 {
			kind = 5
		}
		if r.Intn(25) == 0 {
			kind = 6
		}
		c.prog = hprog{kind: kind, k: r.Intn(4), garbage: []int{-1, -100, off40, len(doc) + 1, len(doc) + 7, 1, 2}[r.Intn(7)], mask: r.Uint64(), seed: r.Uint64()}
	}
	if index%40 == 7 {
		// deep-themed history: the handler traversals (which have no depth limit) first grow the
		// shared stack far beyond 10,000 entries; then the depth-limited functions meet documents
		// at the limit with that oversized, dirty stack (seeded change C01/m2 needs exactly this)
		pat := workload.NestPatterns[r.Intn(12)]
		d0 := []int{12000, 15000, 20001}[r.Intn(3)]
		calls[0] = bufCall{fn: 3 + r.Intn(2), doc: workload.BuildNest(pat, d0, "0", []int{d0, 0, d0 / 2}[r.Intn(3)]), prog: hprog{kind: 0}}
		if calls[0].fn == 4 && calls[0].doc[0] != '{' {
			calls[0].fn = 3
		}
		if calls[0].fn == 3 && calls[0].doc[0] != '[' {
			calls[0].fn = 4
		}
		// and a recursive walker over a nest of 1,001..3,000 levels (every level a live re-entrant call)
		wd := []int{1001, 1500, 3000}[r.Intn(3)]
		wdoc := workload.BuildNest(workload.NestPatterns[r.Intn(12)], wd, "0", wd)
		wfn := 3
		if wdoc[0] == '{' {
			wfn = 4
		}
		calls[len(calls)-1] = bufCall{fn: wfn, doc: wdoc, prog: hprog{kind: 6}}
		for i := 1; i < len(calls)-1; i += 2 + r.Intn(3) {
			d := []int{9999, 10000, 10001, 10002, 10003}[r.Intn(5)]
			calls[i] = bufCall{fn: r.Intn(5), doc: workload.BuildNest(workload.NestPatterns[r.Intn(12)], d, []string{"", "0"}[r.Intn(2)], d), prog: hprog{kind: r.Intn(3), mask: r.Uint64()}}
		}
	}
	return calls
}

// C14: a reused Buffer never changes results, even when shared with the handler.
func RunC14(c *Ctx) {
	// one Buffer that lives as long as the worker: every fifth history continues on it instead of on
	// a Buffer of its own, so that it sees tens of thousands of calls, thousands of them ending in
	// errors (seeded change C14r7-m2: a counter kept in the Buffer that loses one level on every
	// failed handler traversal and locks the Buffer after 10,000 of them)
	var marathon rjson.Buffer
	runHistory := func(index uint64, verbose bool) {
		calls := genHistory(c.Seed, index, true)
		var own rjson.Buffer
		shared := &own
		longLived := ""
		if index%5 == 2 && !verbose {
			shared = &marathon
			longLived = " [on the worker's long-lived Buffer, which earlier histories of this shard have used]"
			c.Rec.C("histories_continued_on_the_long_lived_buffer")
		}
		prevKind := "start"
		// the documents of one history arrive in ONE reused input buffer (the way a program reads
		// lines or messages into a scratch slice): the same address, refilled with different bytes
		// (seeded change C14r4-m2 memoised the last skipped value by slice address and length)
		inbuf := make([]byte, 1<<16)
		// one history in 37 has garbage collections between its calls (two in a row empty sync.Pool's victim
		// cache as well): state parked in a pool, behind a finalizer or a weak pointer only changes hands there
		var gcr *workload.Rand
		if index%37 == 5 {
			gcr = workload.NewRand(c.Seed, index+1700000000)
		}
		for i := range calls {
			call := &calls[i]
			if gcr != nil && gcr.Intn(3) == 0 {
				runtime.GC()
				runtime.GC()
				c.Rec.C("garbage_collections_forced_between_calls")
			}
			if len(call.doc) <= len(inbuf) && index%3 != 0 {
				n := copy(inbuf, call.doc)
				if n < len(inbuf) {
					inbuf[n] = ']' // stale-looking byte just behind the window
				}
				call.doc = inbuf[:n]
				c.Rec.C("calls_on_a_refilled_input_buffer")
			}
			c.Mark(fmt.Sprintf("C14 history %d call %d %s/%s", index, i, bufFnNames[call.fn], progNames[call.prog.kind]), call.doc)
			var t1, t2 transcript
			var p1, p2 int
			var e1, e2 error
			cs := &h.Case{Family: "W9", Desc: fmt.Sprintf("history %d (seed %d), call %d of %d: %s with %s program%s", index, c.Seed, i, len(calls), bufFnNames[call.fn], progNames[call.prog.kind], longLived), Input: call.doc}
			if c.Guarded(cs, bufFnNames[call.fn]+" (shared buffer)", func() { p1, e1 = execBufCall(&t1, call, call.doc, shared, 0) }) {
				continue
			}
			if c.Guarded(cs, bufFnNames[call.fn]+" (nil buffer)", func() { p2, e2 = execBufCall(&t2, call, call.doc, nil, 0) }) {
				continue
			}
			c.Rec.Evals(int64(t1.calls + t2.calls))
			c.Rec.Count("library_calls_with_shared_buffer", int64(t1.calls))
			c.Rec.Max("max_reentrant_depth", int64(t1.maxLevel))
			if t1.maxLevel > 0 {
				c.Rec.C("calls_with_reentrant_sharing")
			}
			c.Rec.Max("max_stack_buffer_len_seen", int64(stackLen(shared)))
			kind := outcomeKind(p1, e1, call.fn, "")
			c.Rec.SetAdd("previous_outcome->next_function", prevKind+"->"+bufFnNames[call.fn])
			c.Rec.C("outcome_" + kind)
			prevKind = kind
			same := p1 == p2 && (e1 == nil) == (e2 == nil) && errStr(e1) == errStr(e2) && t1.lines == t2.lines && t1.calls == t2.calls && bytes.Equal(t1.b.Bytes(), t2.b.Bytes())
			if verbose {
				fmt.Printf("call %d %s/%s doc=%s\n shared: p=%d err=%s\n nil:    p=%d err=%s\n same=%v\n", i, bufFnNames[call.fn], progNames[call.prog.kind], h.Quote(call.doc), p1, errStr(e1), p2, errStr(e2), same)
			}
			if !same {
				d1, d2 := firstDiff(t1.b.String(), t2.b.String())
				c.Rec.AddViolation(h.Violation{Property: c.Prop, Oracle: "outcome with the reused/shared Buffer differs from the outcome with no buffer", Entry: bufFnNames[call.fn], Family: "W9",
					Desc: cs.Desc, InputB64: b64(call.doc), InputQ: h.Quote(call.doc), Script: fmt.Sprintf("history=%d call=%d", index, i),
					Expected: fmt.Sprintf("(nil buffer) p=%d err=%s ... %s", p2, errStr(e2), d2), Observed: fmt.Sprintf("(shared buffer) p=%d err=%s ... %s", p1, errStr(e1), d1), Seed: c.Seed, Tier: c.Tier,
					Key: fmt.Sprintf("C14|history=%d|call=%d", index, i)})
			}
			if c.Rec.WantSample() && t1.maxLevel >= 2 && index%97 == 3 {
				s := t1.b.String()
				if len(s) > 900 {
					s = s[:900] + "..."
				}
				c.Rec.Sample(map[string]interface{}{"history": index, "call": i, "function": bufFnNames[call.fn], "program": progNames[call.prog.kind], "document": h.Quote(call.doc), "transcript_with_shared_buffer": strings.Split(s, "\n"), "identical_to_nil_buffer_transcript": same})
			}
		}
	}
	if c.Replay != nil {
		var idx uint64
		var call int
		fmt.Sscanf(c.Replay.Script, "history=%d call=%d", &idx, &call)
		runHistory(idx, true)
		return
	}
	n := 40000
	if c.Thorough() {
		n = 600000
	}
	for i := 0; i < n; i++ {
		if c.NShards > 1 && i%c.NShards != c.Shard {
			continue
		}
		c.Rec.R.Cases++
		c.Rec.R.Nontrivial++
		runHistory(uint64(i), false)
	}
}

func firstDiff(a, b string) (string, string) {
	la, lb := strings.Split(a, "\n"), strings.Split(b, "\n")
	for i := 0; i < len(la) && i < len(lb); i++ {
		if la[i] != lb[i] {
			return fmt.Sprintf("first differing event #%d: %s", i, la[i]), fmt.Sprintf("first differing event #%d: %s", i, lb[i])
		}
	}
	return fmt.Sprintf("%d events", len(la)), fmt.Sprintf("%d events", len(lb))
}
