package monitor

import (
	"fmt"
	"runtime"
	"runtime/debug"
	"strconv"
	"strings"

	"github.com/willabides/rjson"

	h "verif/internal/harness"
	"verif/internal/refmodel"
)

// totalAlloc measures the bytes allocated on the heap by f (GC disabled for the duration).
func totalAlloc(f func()) uint64 {
	runtime.GC()
	old := debug.SetGCPercent(-1)
	var a, b runtime.MemStats
	runtime.ReadMemStats(&a)
	f()
	runtime.ReadMemStats(&b)
	debug.SetGCPercent(old)
	return b.TotalAlloc - a.TotalAlloc
}

// ---------------------------------------------------------------- document shapes (W10)

type docFamily struct {
	name  string
	make  func(n int) []byte
	sizes [3]int // n, 2n, 4n ... chosen so that the largest document stays below the depth limit where nesting is involved
}

func keysObj(n int, prefix string) string {
	var sb strings.Builder
	sb.WriteByte('{')
	for i := 0; i < n; i++ {
		if i > 0 {
			sb.WriteByte(',')
		}
		sb.WriteByte('"')
		sb.WriteString(prefix)
		sb.WriteString(strconv.Itoa(i))
		sb.WriteString(`":0`)
	}
	sb.WriteByte('}')
	return sb.String()
}

func zerosArr(n int) string { return "[" + strings.Repeat("0,", n) + "0]" }

var wide = [3]int{2000, 4000, 8000}
var deep = [3]int{2400, 4800, 9600}

var docFamilies = []docFamily{
	{"bigobj-then-empty-objects", func(n int) []byte { return []byte("[" + keysObj(n, "") + strings.Repeat(",{}", n) + "]") }, wide},
	{"bigarr-then-empty-arrays", func(n int) []byte { return []byte("[" + zerosArr(n) + strings.Repeat(",[]", n) + "]") }, wide},
	{"bigobj-then-empties-as-object-values", func(n int) []byte {
		var sb strings.Builder
		sb.WriteString(`{"big":` + keysObj(n, "") + "")
		for i := 0; i < n; i++ {
			sb.WriteString(`,"e` + strconv.Itoa(i) + `":{}`)
		}
		sb.WriteString("}")
		return []byte(sb.String())
	}, wide},
	{"bigobj-then-empties-two-levels-down", func(n int) []byte { return []byte("[[" + keysObj(n, "") + strings.Repeat(",{}", n) + "]]") }, wide},
	{"bigobj-then-small-objects", func(n int) []byte { return []byte("[" + keysObj(n, "") + strings.Repeat(`,{"a":1}`, n) + "]") }, wide},
	{"alternating-big-and-empty", func(n int) []byte {
		return []byte("[" + strings.Repeat(keysObj(100, "k")+",{},", n/50) + "{}]")
	}, wide},
	{"bigobj-then-failing-sibling", func(n int) []byte { return []byte("[" + keysObj(n, "") + strings.Repeat(",{}", n) + `,{"a":}]`) }, wide},
	{"escaped-string-at-each-level", func(n int) []byte { return []byte(strings.Repeat(`["\n",`, n) + "0" + strings.Repeat("]", n)) }, deep},
	{"escaped-key-at-each-level", func(n int) []byte { return []byte(strings.Repeat(`{"\n":`, n) + "0" + strings.Repeat("}", n)) }, deep},
	{"unicode-escape-at-each-level", func(n int) []byte {
		return []byte(strings.Repeat(`["`+"\\"+`u00e9",`, n) + "0" + strings.Repeat("]", n))
	}, deep},
	{"many-short-escaped-strings", func(n int) []byte { return []byte("[" + strings.Repeat(`"\n",`, 4*n) + `""]`) }, wide},
	{"many-escaped-keys", func(n int) []byte {
		var sb strings.Builder
		sb.WriteString("{")
		for i := 0; i < 2*n; i++ {
			sb.WriteString(`"\t` + strconv.Itoa(i) + `":0,`)
		}
		sb.WriteString(`"z":0}`)
		return []byte(sb.String())
	}, wide},
	{"deep-arrays", func(n int) []byte { return []byte(strings.Repeat("[", n) + strings.Repeat("]", n)) }, deep},
	{"deep-objects", func(n int) []byte { return []byte(strings.Repeat(`{"a":`, n) + "0" + strings.Repeat("}", n)) }, deep},
	{"deep-mixed", func(n int) []byte { return []byte(strings.Repeat(`[{"a":`, n/2) + "0" + strings.Repeat("}]", n/2)) }, deep},
	{"deep-with-siblings", func(n int) []byte { return []byte(strings.Repeat(`[1,"x",`, n) + "0" + strings.Repeat("]", n)) }, deep},
	{"flat-numbers", func(n int) []byte { return []byte("[" + strings.Repeat("12345.678,", 8*n) + "0]") }, wide},
	// result slices far beyond any fixed growth step (seeded change C20r6-m1: +4096 elements per
	// reallocation once a slice holds 4096)
	{"very-long-flat-array", func(n int) []byte { return []byte("[" + strings.Repeat("0,", 25*n) + "0]") }, wide},
	{"very-wide-object", func(n int) []byte { return []byte(keysObj(12*n, "")) }, wide},
	{"many-nulls", func(n int) []byte { return []byte("[" + strings.Repeat("null,", 8*n) + "null]") }, wide},
	{"many-null-members", func(n int) []byte {
		var sb strings.Builder
		sb.WriteString("{")
		for i := 0; i < 4*n; i++ {
			sb.WriteString(`"k` + strconv.Itoa(i) + `":null,`)
		}
		sb.WriteString(`"z":null}`)
		return []byte(sb.String())
	}, wide},
	{"flat-strings", func(n int) []byte { return []byte("[" + strings.Repeat(`"abcdefgh",`, 8*n) + `""]`) }, wide},
	{"one-long-escaped-string", func(n int) []byte { return []byte(`["` + strings.Repeat(`ab\n`, 10*n) + `"]`) }, wide},
	{"one-long-unicode-escaped-string", func(n int) []byte { return []byte(`["` + strings.Repeat(`\u4e2d\u6587`, 4*n) + `"]`) }, wide},
	{"one-long-surrogate-pair-string", func(n int) []byte { return []byte(`["` + strings.Repeat(`\ud83d\ude00`, 4*n) + `"]`) }, wide},
	{"one-long-mixed-escape-string", func(n int) []byte { return []byte(`["` + strings.Repeat(`a\n\u00e9\"bc\ud800`, 2*n) + `"]`) }, wide},
	{"one-long-unicode-escaped-key", func(n int) []byte { return []byte(`{"` + strings.Repeat(`\u4e2d`, 8*n) + `":1}`) }, wide},
	{"many-unicode-escaped-strings", func(n int) []byte { return []byte("[" + strings.Repeat(`"\u4e2d\u6587\u5b57",`, 2*n) + `""]`) }, wide},
	{"one-long-plain-string", func(n int) []byte { return []byte(`"` + strings.Repeat("a", 40*n) + `"`) }, wide},
	{"long-keys", func(n int) []byte {
		return []byte("{" + strings.Repeat(`"`+strings.Repeat("k", 50)+`":1,`, n) + `"z":0}`)
	}, wide},
	{"array-of-small-objects", func(n int) []byte {
		return []byte("[" + strings.Repeat(`{"id":1,"name":"x","tags":["a","b"]},`, n) + "{}]")
	}, wide},
	{"growing-siblings", func(n int) []byte {
		var sb strings.Builder
		sb.WriteString("[")
		for i := 0; i < 64; i++ {
			sb.WriteString(zerosArr(i*n/64) + ",")
		}
		sb.WriteString("[]]")
		return []byte(sb.String())
	}, wide},
	{"long-number-literals", func(n int) []byte {
		return []byte("[" + strings.Repeat(strings.Repeat("7", 700)+".5e-690,", n/20) + "0]")
	}, wide},
	// CONTENT that takes a rarer route, under the shapes above: bytes that are not valid UTF-8 in a leaf below deep
	// nesting (seeded change C20r10-m1: a fix-up pass over the result repeated by every ancestor of the offending
	// string), numbers that need the multiprecision fallback in bulk (seeded change C20r10-m2: the fallback's digit
	// buffer sized by the rest of the document), integers just beyond int64
	{"deep-arrays-around-an-invalid-utf8-string", func(n int) []byte {
		return []byte(strings.Repeat("[1,2,3,", n) + "\"caf\xe9\"" + strings.Repeat("]", n))
	}, deep},
	{"deep-objects-around-an-invalid-utf8-key", func(n int) []byte {
		return []byte(strings.Repeat(`{"a":`, n) + "{\"k\xff\":1}" + strings.Repeat("}", n))
	}, deep},
	{"deep-mixed-around-a-four-byte-character", func(n int) []byte {
		return []byte(strings.Repeat(`[{"a":`, n/2) + "\"\xf0\x9f\x98\x80\"" + strings.Repeat("}]", n/2))
	}, deep},
	{"many-invalid-utf8-strings", func(n int) []byte { return []byte("[" + strings.Repeat("\"caf\xe9\",", 4*n) + `""]`) }, wide},
	{"many-slow-path-numbers", func(n int) []byte {
		return []byte("[" + strings.Repeat("9007199254740993,4.9e-324,2.2250738585072011e-308,9007199254740995.0,", n) + "0]")
	}, wide},
	{"many-integers-around-the-int64-limit", func(n int) []byte {
		return []byte("[" + strings.Repeat("1234567890123456789,9223372036854775808,-9223372036854775809,", n) + "0]")
	}, wide},
	{"whitespace-heavy", func(n int) []byte { return []byte("[" + strings.Repeat(" \n\t 1 \r\n , ", 4*n) + "2 ]") }, wide},
}

// ---------------------------------------------------------------- entry points

type reentrantStringHandler struct{ buf *rjson.Buffer }

func (r reentrantStringHandler) HandleArrayValue(d []byte) (int, error) { return r.handle(d) }
func (r reentrantStringHandler) HandleObjectValue(k, d []byte) (int, error) {
	return r.handle(d)
}

// documented-style member decoding: strings via ReadString(data, nil), containers through a
// nested traversal sharing the enclosing call's buffer, everything else skipped.
func (r reentrantStringHandler) handle(d []byte) (int, error) {
	tt, _, err := rjson.NextTokenType(d)
	if err != nil {
		return 0, err
	}
	switch tt {
	case rjson.StringType:
		_, p, err := rjson.ReadString(d, nil)
		return p, err
	case rjson.ArrayStartType:
		return rjson.HandleArrayValues(d, r, r.buf)
	case rjson.ObjectStartType:
		return rjson.HandleObjectValues(d, r, r.buf)
	case rjson.NumberType:
		_, p, err := rjson.ReadFloat64(d)
		return p, err
	case rjson.NullType:
		// a nullable string field: the reader's error is built and discarded on this success path
		// (seeded change C20r7-m1: an error message that formats the rest of the input)
		var s string
		return rjson.DecodeString(d, &s, nil)
	}
	return rjson.SkipValue(d, r.buf)
}

type entryPoint struct {
	name string
	run  func(d []byte, buf *rjson.Buffer, vr *rjson.ValueReader) error
}

var c20Entries = []entryPoint{
	{"ReadValue", func(d []byte, buf *rjson.Buffer, vr *rjson.ValueReader) error {
		_, _, e := rjson.ReadValue(d)
		return e
	}},
	{"ValueReader(reused).ReadValue", func(d []byte, buf *rjson.Buffer, vr *rjson.ValueReader) error { _, _, e := vr.ReadValue(d); return e }},
	{"Valid(nil)", func(d []byte, buf *rjson.Buffer, vr *rjson.ValueReader) error { rjson.Valid(d, nil); return nil }},
	{"Valid(reused buffer)", func(d []byte, buf *rjson.Buffer, vr *rjson.ValueReader) error { rjson.Valid(d, buf); return nil }},
	{"SkipValue(nil)", func(d []byte, buf *rjson.Buffer, vr *rjson.ValueReader) error {
		_, e := rjson.SkipValue(d, nil)
		return e
	}},
	{"SkipValueFast(nil)", func(d []byte, buf *rjson.Buffer, vr *rjson.ValueReader) error {
		_, e := rjson.SkipValueFast(d, nil)
		return e
	}},
	{"HandleArrayValues/HandleObjectValues(declining handler)", func(d []byte, buf *rjson.Buffer, vr *rjson.ValueReader) error {
		if len(d) > 0 && d[0] == '{' {
			_, e := rjson.HandleObjectValues(d, nopObjectHandler{}, nil)
			return e
		}
		_, e := rjson.HandleArrayValues(d, nopArrayHandler{}, nil)
		return e
	}},
	{"HandleArrayValues/HandleObjectValues(re-entrant decoding handler)", func(d []byte, buf *rjson.Buffer, vr *rjson.ValueReader) error {
		hd := reentrantStringHandler{buf}
		if len(d) > 0 && d[0] == '{' {
			_, e := rjson.HandleObjectValues(d, hd, buf)
			return e
		}
		_, e := rjson.HandleArrayValues(d, hd, buf)
		return e
	}},
	{"HandleArrayValues/HandleObjectValues(handler collecting all strings and keys in one destination)", func(d []byte, buf *rjson.Buffer, vr *rjson.ValueReader) error {
		var acc []byte
		hd := collectingHandler{buf, &acc}
		if len(d) > 0 && d[0] == '{' {
			_, e := rjson.HandleObjectValues(d, hd, buf)
			return e
		}
		_, e := rjson.HandleArrayValues(d, hd, buf)
		return e
	}},
}

// collectingHandler appends every string value (ReadStringBytes) and every key
// (UnescapeStringContent) of a document to ONE growing destination, the documented append use of
// those functions (seeded change C20r5-m2: the destination's spare capacity ignored once a string
// has an escape, so that every call copies everything collected so far).
type collectingHandler struct {
	buf *rjson.Buffer
	acc *[]byte
}

func (r collectingHandler) HandleArrayValue(d []byte) (int, error) { return r.handle(d) }
func (r collectingHandler) HandleObjectValue(k, d []byte) (int, error) {
	var err error
	if *r.acc, _, err = rjson.UnescapeStringContent(k, *r.acc); err != nil {
		return 0, err
	}
	return r.handle(d)
}

func (r collectingHandler) handle(d []byte) (int, error) {
	tt, _, err := rjson.NextTokenType(d)
	if err != nil {
		return 0, err
	}
	switch tt {
	case rjson.StringType:
		var p int
		*r.acc, p, err = rjson.ReadStringBytes(d, *r.acc)
		return p, err
	case rjson.ArrayStartType:
		return rjson.HandleArrayValues(d, r, r.buf)
	case rjson.ObjectStartType:
		return rjson.HandleObjectValues(d, r, r.buf)
	}
	return 0, nil
}

// thresholds (explicit judgement calls about "a fixed constant multiple")
const (
	growthLimit      = 2.5       // bytes-per-input-byte at 4n must be below growthLimit x the figure at n
	growthMinBytes   = 256 << 10 // only families allocating at least this much at 4n are judged by growth
	absPerByte       = 16384     // absolute sanity cap per input byte ...
	absPerCall       = 1 << 20   // ... plus this per call
	histPerByte      = 64        // history: each small call may allocate histPerByte x len + histPerCall
	histPerCall      = 8 << 10
	histSettleFactor = 2 // the first calls after a big document may together cost up to this x alloc(big)
)

// C20: memory cost is linear in input size, also on reused readers and buffers.
func RunC20(c *Ctx) {
	verbose := c.Replay != nil
	only := ""
	if c.Replay != nil {
		only = c.Replay.Script
	}
	// (i) growth over n, 2n, 4n for every (family, entry point), sharded by index
	idx := 0
	for _, fam := range docFamilies {
		for _, ep := range c20Entries {
			idx++
			key := "growth|" + fam.name + "|" + ep.name
			if only != "" && only != key {
				continue
			}
			if only == "" && c.NShards > 1 && idx%c.NShards != c.Shard {
				continue
			}
			var perByte [3]float64
			var allocs [3]uint64
			var lens [3]int
			for si, n := range fam.sizes {
				d := fam.make(n)
				lens[si] = len(d)
				c.Mark("C20 "+key, d)
				cs := &h.Case{Family: "W10", Desc: fmt.Sprintf("%s n=%d via %s", fam.name, n, ep.name), Input: d}
				c.Guarded(cs, ep.name, func() {
					var buf rjson.Buffer
					var vr rjson.ValueReader
					allocs[si] = totalAlloc(func() { ep.run(d, &buf, &vr) })
				})
				perByte[si] = float64(allocs[si]) / float64(len(d))
				c.Rec.Evals(1)
			}
			c.Rec.R.Cases++
			c.Rec.R.Nontrivial++
			c.Rec.C("growth_series_measured")
			ratio := 0.0
			if perByte[0] > 0 {
				ratio = perByte[2] / perByte[0]
			}
			c.Rec.SetAdd("growth_series", fmt.Sprintf("%s via %s: lens=%v alloc=%v bytes/byte=[%.1f %.1f %.1f] ratio=%.2f", fam.name, ep.name, lens, allocs, perByte[0], perByte[1], perByte[2], ratio))
			if verbose {
				fmt.Printf("%s: lens=%v alloc=%v perByte=%.2f ratio=%.2f\n", key, lens, allocs, perByte, ratio)
			}
			if allocs[2] >= growthMinBytes {
				c.Rec.C("growth_series_judged")
				if ratio > c.Rec.R.Floats["max_growth_ratio_seen"] {
					c.Rec.R.Floats["max_growth_ratio_seen"] = ratio
				}
				if ratio >= growthLimit {
					c.Rec.AddViolation(h.Violation{Property: c.Prop, Oracle: "allocation grows faster than linearly with input size", Entry: ep.name, Family: "W10", Desc: fam.name, Script: key,
						Expected: fmt.Sprintf("bytes allocated per input byte at 4n below %.1f x the figure at n", growthLimit),
						Observed: fmt.Sprintf("input lengths %v allocated %v bytes: %.1f, %.1f, %.1f bytes per input byte (x%.2f)", lens, allocs, perByte[0], perByte[1], perByte[2], ratio), Seed: c.Seed, Tier: c.Tier, Key: "C20|" + key})
				}
			}
			for si := range allocs {
				if allocs[si] > uint64(absPerByte)*uint64(lens[si])+absPerCall {
					c.Rec.AddViolation(h.Violation{Property: c.Prop, Oracle: "allocation exceeds the absolute per-byte cap", Entry: ep.name, Family: "W10", Desc: fam.name, Script: key,
						Expected: fmt.Sprintf("at most %d bytes per input byte + %d", absPerByte, absPerCall), Observed: fmt.Sprintf("%d bytes for a %d-byte input", allocs[si], lens[si]), Seed: c.Seed, Tier: c.Tier, Key: "C20|abs|" + key})
				}
			}
		}
	}
	// (ii) histories: a big document, then N small ones on the same reader / buffer
	bigs := []struct {
		name string
		doc  []byte
	}{
		{"big-object", []byte(keysObj(30000, ""))},
		{"big-array", []byte(zerosArr(60000))},
		{"nested-big-object", []byte(`{"x":[` + keysObj(30000, "") + `]}`)},
		{"nested-big-array", []byte(`[{"x":` + zerosArr(60000) + `}]`)},
		{"array-holding-one-big-object", []byte("[" + keysObj(20000, "") + "]")},
		{"object-whose-last-member-is-big", []byte(`{"a":1,"z":` + keysObj(20000, "") + "}")},
		{"object-with-one-wide-member", []byte(`{"data":` + keysObj(20000, "") + "}")},
		{"big-object-of-objects", []byte("[" + strings.Repeat(keysObj(40, "k")+",", 800) + "{}]")},
		{"deep", []byte(strings.Repeat(`[{"a":`, 4500) + "0" + strings.Repeat("}]", 4500))},
		{"one-huge-string", []byte(`["` + strings.Repeat("a", 70000) + `","b"]`)},
		{"one-huge-escaped-key", []byte(`{"` + strings.Repeat(`k\t`, 30000) + `":"v"}`)},
		{"big-escaped-strings", []byte("[" + strings.Repeat(`"`+strings.Repeat(`\n`, 500)+`",`, 100) + `""]`)},
	}
	smalls := []struct {
		name string
		doc  []byte
	}{
		{"small-objects", []byte(`{"a":{"b":1},"c":{"d":2},"e":{}}`)},
		{"small-arrays", []byte(`[{},{},{},{},{},{},{},{},{},{}]`)},
		{"small-nested-arrays", []byte(`[[1],[2],[],[[]]]`)},
		{"failing-object", []byte(`{"a":{"b":1},"c":{"d":`)},
		{"failing-array", []byte(`[[1,2],[3,`)},
		// the FIRST nested container fails, so that no successful sibling refreshes a hint before the
		// error (seeded change C20r9-m2: the child's size recorded only on success)
		{"failing-inside-the-first-nested-object", []byte(`{"data":{"id":1`)},
		{"failing-inside-the-first-nested-array", []byte(`{"data":[1,`)},
		{"failing-first-element-object", []byte(`[{"id":`)},
		{"null", []byte(`null`)},
		{"wrong-kind", []byte(`"just a string"`)},
		{"small-escaped", []byte(`{"\n":"\t","k":["\""]}`)},
		{"flat-object", []byte(`{"a":1,"b":"x","c":null}`)},
		{"empty-object", []byte(`{}`)},
		{"empty-array", []byte(`[]`)},
	}
	rot := 0
	readers := []struct {
		name string
		run  func(vr *rjson.ValueReader, buf *rjson.Buffer, d []byte)
	}{
		{"ValueReader.ReadValue", func(vr *rjson.ValueReader, buf *rjson.Buffer, d []byte) { vr.ReadValue(d) }},
		{"ValueReader.ReadObject", func(vr *rjson.ValueReader, buf *rjson.Buffer, d []byte) { vr.ReadObject(d) }},
		{"ValueReader.ReadArray", func(vr *rjson.ValueReader, buf *rjson.Buffer, d []byte) { vr.ReadArray(d) }},
		// mixed entry points on one reader: the large document through one method, the small ones
		// through another (seeded change C20r2-m1 leaked a size hint only across entry points)
		{"ValueReader: large via ReadArray/ReadObject, small via ReadValue", func(vr *rjson.ValueReader, buf *rjson.Buffer, d []byte) {
			if len(d) < 1000 {
				vr.ReadValue(d)
			} else if d[0] == '{' {
				vr.ReadObject(d)
			} else {
				vr.ReadArray(d)
			}
		}},
		{"ValueReader: large via ReadValue, small via ReadObject/ReadArray", func(vr *rjson.ValueReader, buf *rjson.Buffer, d []byte) {
			if len(d) >= 1000 {
				vr.ReadValue(d)
			} else if d[0] == '{' {
				vr.ReadObject(d)
			} else {
				vr.ReadArray(d)
			}
		}},
		{"ValueReader: methods rotated on every call", func(vr *rjson.ValueReader, buf *rjson.Buffer, d []byte) {
			rot++
			switch rot % 3 {
			case 0:
				vr.ReadValue(d)
			case 1:
				vr.ReadObject(d)
			default:
				vr.ReadArray(d)
			}
		}},
		{"Valid(reused buffer)", func(vr *rjson.ValueReader, buf *rjson.Buffer, d []byte) { rjson.Valid(d, buf) }},
		{"SkipValueFast(reused buffer)", func(vr *rjson.ValueReader, buf *rjson.Buffer, d []byte) { rjson.SkipValueFast(d, buf) }},
		{"Handle*Values(re-entrant handler, reused buffer)", func(vr *rjson.ValueReader, buf *rjson.Buffer, d []byte) {
			hd := reentrantStringHandler{buf}
			if len(d) > 0 && d[0] == '{' {
				rjson.HandleObjectValues(d, hd, buf)
			} else {
				rjson.HandleArrayValues(d, hd, buf)
			}
		}},
	}
	// mixed entry points on one Buffer: the large document through one function, the small ones
	// through another (seeded change C20r7-m2: handler traversals copy the Buffer's whole stack, whose
	// high-water mark was set by a deep document that went through Valid)
	handleDeclining := func(buf *rjson.Buffer, d []byte) {
		if len(d) > 0 && d[0] == '{' {
			rjson.HandleObjectValues(d, nopObjectHandler{}, buf)
		} else {
			rjson.HandleArrayValues(d, nopArrayHandler{}, buf)
		}
	}
	readers = append(readers,
		struct {
			name string
			run  func(vr *rjson.ValueReader, buf *rjson.Buffer, d []byte)
		}{"Buffer: large via Valid, small via Handle*Values(declining handler)", func(vr *rjson.ValueReader, buf *rjson.Buffer, d []byte) {
			if len(d) >= 1000 {
				rjson.Valid(d, buf)
			} else {
				handleDeclining(buf, d)
			}
		}},
		struct {
			name string
			run  func(vr *rjson.ValueReader, buf *rjson.Buffer, d []byte)
		}{"Buffer: large via Handle*Values(declining handler), small via SkipValue", func(vr *rjson.ValueReader, buf *rjson.Buffer, d []byte) {
			if len(d) >= 1000 {
				handleDeclining(buf, d)
			} else {
				rjson.SkipValue(d, buf)
			}
		}},
		struct {
			name string
			run  func(vr *rjson.ValueReader, buf *rjson.Buffer, d []byte)
		}{"Buffer: large via SkipValue, small via Handle*Values(re-entrant handler)", func(vr *rjson.ValueReader, buf *rjson.Buffer, d []byte) {
			if len(d) >= 1000 {
				rjson.SkipValue(d, buf)
				return
			}
			hd := reentrantStringHandler{buf}
			if len(d) > 0 && d[0] == '{' {
				rjson.HandleObjectValues(d, hd, buf)
			} else {
				rjson.HandleArrayValues(d, hd, buf)
			}
		}})
	N := 300
	if c.Thorough() {
		N = 3000
	}
	for _, big := range bigs {
		for _, small := range smalls {
			for _, rd := range readers {
				idx++
				key := "history|" + big.name + "|" + small.name + "|" + rd.name
				if only != "" && only != key {
					continue
				}
				if only == "" && c.NShards > 1 && idx%c.NShards != c.Shard {
					continue
				}
				c.Mark("C20 "+key, small.doc)
				cs := &h.Case{Family: "W10h", Desc: key, Input: small.doc}
				var aBig, aSettle, aRest, aMaxLate uint64
				c.Guarded(cs, rd.name, func() {
					var vr rjson.ValueReader
					var buf rjson.Buffer
					aBig = totalAlloc(func() { rd.run(&vr, &buf, big.doc) })
					for i := 0; i < N; i++ {
						a := totalAlloc(func() { rd.run(&vr, &buf, small.doc) })
						if i < 3 {
							aSettle += a
						} else {
							aRest += a
							if a > aMaxLate {
								aMaxLate = a
							}
						}
					}
				})
				c.Rec.Evals(int64(N + 1))
				c.Rec.R.Cases++
				c.Rec.R.Nontrivial++
				c.Rec.C("histories_measured")
				perCall := float64(aRest) / float64(N-3)
				if perCall > c.Rec.R.Floats["max_bytes_per_late_small_call_seen"] {
					c.Rec.R.Floats["max_bytes_per_late_small_call_seen"] = perCall
				}
				c.Rec.SetAdd("histories", fmt.Sprintf("%s: big=%d bytes allocated for a %d-byte document; first 3 small calls %d; later small calls avg %.0f max %d (len %d)", key, aBig, len(big.doc), aSettle, perCall, aMaxLate, len(small.doc)))
				if verbose {
					fmt.Printf("%s: big=%d settle=%d rest=%d perCall=%.0f maxLate=%d\n", key, aBig, aSettle, aRest, perCall, aMaxLate)
				}
				limit := uint64(histPerByte*len(small.doc) + histPerCall)
				if aMaxLate > limit {
					c.Rec.AddViolation(h.Violation{Property: c.Prop, Oracle: "a reader/buffer that once processed a large document keeps making small documents expensive", Entry: rd.name, Family: "W10h", Desc: key, Script: key,
						Expected: fmt.Sprintf("every small call after the third allocates at most %d bytes (%d x len + %d)", limit, histPerByte, histPerCall),
						Observed: fmt.Sprintf("a %d-byte document cost %d bytes (avg %.0f over %d calls) after a %d-byte document that cost %d", len(small.doc), aMaxLate, perCall, N-3, len(big.doc), aBig), Seed: c.Seed, Tier: c.Tier, Key: "C20|" + key})
				}
				if aSettle > histSettleFactor*aBig+3*limit {
					c.Rec.AddViolation(h.Violation{Property: c.Prop, Oracle: "the first small calls after a large document cost more than a constant multiple of the large one", Entry: rd.name, Family: "W10h", Desc: key, Script: key,
						Expected: fmt.Sprintf("at most %d x alloc(big) + 3 x %d", histSettleFactor, limit), Observed: fmt.Sprintf("%d bytes vs alloc(big)=%d", aSettle, aBig), Seed: c.Seed, Tier: c.Tier, Key: "C20|settle|" + key})
				}
			}
		}
	}
	if c.Shard == 0 || only != "" {
		c.Rec.Sample(map[string]interface{}{"thresholds": map[string]interface{}{"growth_limit_ratio_4n_vs_n": growthLimit, "growth_judged_when_alloc_at_4n_at_least": growthMinBytes, "abs_per_byte": absPerByte, "abs_per_call": absPerCall, "history_per_byte": histPerByte, "history_per_call": histPerCall}})
	}
	_ = refmodel.MaxDepth
}

// Hint-propagation product: G[ big, P[ child x n ] ] for grandparent G and parent P in {array,
// object}, big in {wide object, wide array} as the elder sibling of P, child in {{}, [], {"a":1}}.
// Size hints travel parent -> child -> grandchild; a hint handed down one generation too far, or
// taken from the wrong field, only shows for one of these shapes (seeded changes C20r3-m1/m2).
func init() {
	kinds := []string{"array", "object"}
	bigs := map[string]func(n int) string{"wide-object": func(n int) string { return keysObj(n, "") }, "wide-array": zerosArr}
	children := []string{"{}", "[]", `{"a":1}`}
	for _, g := range kinds {
		for _, pk := range kinds {
			for bn, bf := range bigs {
				for _, ch := range children {
					g, pk, bf, ch := g, pk, bf, ch
					name := fmt.Sprintf("%s[ %s, %s[ %s x n ] ]", g, bn, pk, ch)
					docFamilies = append(docFamilies, docFamily{name, func(n int) []byte {
						var sb strings.Builder
						// parent with n children
						var par strings.Builder
						if pk == "array" {
							par.WriteString("[")
							for i := 0; i < n; i++ {
								if i > 0 {
									par.WriteByte(',')
								}
								par.WriteString(ch)
							}
							par.WriteString("]")
						} else {
							par.WriteString("{")
							for i := 0; i < n; i++ {
								if i > 0 {
									par.WriteByte(',')
								}
								par.WriteString(`"m` + strconv.Itoa(i) + `":` + ch)
							}
							par.WriteString("}")
						}
						if g == "array" {
							sb.WriteString("[" + bf(n) + "," + par.String() + "]")
						} else {
							sb.WriteString(`{"big":` + bf(n) + `,"rest":` + par.String() + "}")
						}
						return []byte(sb.String())
					}, wide})
				}
			}
		}
	}
	docFamilies = append(docFamilies,
		// failing documents: an error raised at the bottom of a deep nest travels up through every level
		// (seeded change C20r4-m1 wrapped it with fmt.Errorf at each level: quadratic in depth)
		docFamily{"deep-objects-failing-at-the-bottom", func(n int) []byte { return []byte(strings.Repeat(`{"k":`, n) + "x") }, deep},
		docFamily{"deep-arrays-failing-at-the-bottom", func(n int) []byte { return []byte(strings.Repeat("[", n) + "x") }, deep},
		docFamily{"deep-mixed-failing-at-the-bottom", func(n int) []byte { return []byte(strings.Repeat(`[{"a":`, n/2) + `"unterminated`) }, deep},
		docFamily{"deep-arrays-closed-wrongly", func(n int) []byte { return []byte(strings.Repeat("[", n) + strings.Repeat("]", n/2) + "}") }, deep},
		// a long string first, deep nesting afterwards (seeded change C20r4-m2 sized every new child
		// reader's scratch like its parent's: S x d)
		docFamily{"long-string-then-deep-arrays", func(n int) []byte {
			return []byte(`["` + strings.Repeat("s", 8*n) + `",` + strings.Repeat("[", n) + "1" + strings.Repeat("]", n) + "]")
		}, deep},
		docFamily{"long-escaped-string-then-deep-objects", func(n int) []byte {
			return []byte(`{"s":"` + strings.Repeat(`ab\n`, 2*n) + `","d":` + strings.Repeat(`{"a":`, n) + "1" + strings.Repeat("}", n) + "}")
		}, deep},
		docFamily{"long-escaped-key-then-deep-arrays", func(n int) []byte {
			return []byte(`{"` + strings.Repeat(`k\t`, 3*n) + `":0,"d":` + strings.Repeat("[", n) + "1" + strings.Repeat("]", n) + "}")
		}, deep},
		docFamily{"array[ object{x: wide-object}, {} x n ]", func(n int) []byte {
			return []byte(`[{"x":` + keysObj(n, "") + "}" + strings.Repeat(",{}", n) + "]")
		}, wide},
		docFamily{"array[ object{x: wide-object}, flat objects x n ]", func(n int) []byte {
			return []byte(`[{"x":` + keysObj(n, "") + "}" + strings.Repeat(`,{"a":1,"b":2}`, n) + "]")
		}, wide},
		docFamily{"array[ array[wide-array], [] x n ]", func(n int) []byte {
			return []byte("[[" + zerosArr(n) + "]" + strings.Repeat(",[]", n) + "]")
		}, wide})
}
