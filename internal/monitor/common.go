// Package monitor holds the per-property oracles. Each one observes executions of the
// real rjson code (built from /repo's working tree) and compares what it sees with the
// reference model, with shadow executions, or with runtime counters.
package monitor

import (
	"bytes"
	"encoding/json"
	"fmt"
	"runtime/debug"
	"strings"
	"sync"
	"sync/atomic"

	"github.com/willabides/rjson"

	h "verif/internal/harness"
	"verif/internal/refmodel"
	"verif/internal/workload"
)

// Ctx is the per-worker context.
type Ctx struct {
	Prop    string
	Tier    string // quick | thorough
	Seed    int64
	Shard   int
	NShards int
	Rec     *h.Recorder
	LC      *h.LastCase
	Replay  *h.Violation          // non-nil: replay this single case verbosely
	Filter  func(cs *h.Case) bool // optional: RunDocs skips cases for which it returns false
	seq     uint64
}

func (c *Ctx) Thorough() bool { return c.Tier == "thorough" }

// Mine decides by input hash whether this shard owns the case, and de-duplicates.
func (c *Ctx) Mine(in []byte) bool {
	hv := h.Hash(in)
	if c.NShards > 1 && int(hv%uint64(c.NShards)) != c.Shard {
		return false
	}
	return c.Rec.FirstSight(hv)
}

// Mark notes the case about to run in the last-case file.
func (c *Ctx) Mark(meta string, in []byte) {
	seq := atomic.AddUint64(&c.seq, 1)
	if c.LC == nil {
		return
	}
	if len(meta) < 160 {
		meta += padding[:160-len(meta)]
	}
	c.LC.Set(seq, meta, in)
}

// Seq is the number of cases started so far (read by the stall watchdog).
func (c *Ctx) Seq() uint64 { return atomic.LoadUint64(&c.seq) }

var padding = strings.Repeat(" ", 160)

// Guarded runs f and converts a panic into a violation attributed to the property under
// test (a panic in the code under test always breaks C10, and whatever property we were
// checking could not be decided for that case).
func (c *Ctx) Guarded(cs *h.Case, entry string, f func()) (panicked bool) {
	defer func() {
		if r := recover(); r != nil {
			panicked = true
			st := string(debug.Stack())
			if len(st) > 3000 {
				st = st[:3000]
			}
			oracle := "panic"
			if msg := fmt.Sprint(r); strings.Contains(msg, "fault address") || strings.Contains(msg, "unexpected fault") {
				oracle = "write into (or wild access near) a read-only input page"
			}
			v := h.Violation{Property: c.Prop, Oracle: oracle, Entry: entry, Observed: fmt.Sprint(r), Crash: st, Seed: c.Seed, Tier: c.Tier}
			if cs != nil {
				v.Family = cs.Family
				v.Desc = cs.Describe()
				v.InputQ = h.Quote(cs.Input)
				if len(cs.Input) <= 1<<20 {
					v.InputB64 = b64(cs.Input)
				}
			}
			c.Rec.AddViolation(v)
		}
	}()
	f()
	return false
}

// DocFamilies runs the standard document families for a tier through fn.
// fams selects which: any of "W1","W1F","W2","W3","W4","W5small".
type DocFn func(cs *h.Case)

func (c *Ctx) RunDocs(fams []string, fn DocFn) {
	if c.Replay != nil {
		cs := &h.Case{Family: c.Replay.Family, Desc: c.Replay.Desc, Input: c.Replay.Input()}
		fn(cs)
		return
	}
	sink := func(cs *h.Case) {
		if c.Filter != nil && !c.Filter(cs) {
			return
		}
		if !c.Mine(cs.Input) {
			return
		}
		c.Rec.R.Cases++
		c.Rec.R.Counters["family_"+cs.Family]++
		c.Mark(c.Prop+" "+cs.Family, cs.Input)
		fn(cs)
	}
	for _, f := range fams {
		switch f {
		case "W1":
			workload.W1(c.Thorough(), sink)
		case "W1F":
			workload.W1Followers(sink)
		case "W6docs":
			// the special number literals (ties, 800-digit expansions, overflow threshold, ...) as
			// members of documents; literals with more than 800 integer-part digits are left to C04,
			// whose oracle is exact there (strconv is not, DESIGN.md section 9)
			wc := &h.Case{Family: "W6d"}
			workload.W6Special(func(cs *h.Case) {
				lit := string(cs.Input)
				if intPartDigits(lit) > 800 || expDigits(lit) >= 5 {
					return
				}
				for wi, w := range [][2]string{{"[", "]"}, {`{"n":`, "}"}, {"[0.5,", ",-1e2]"}} {
					wc.Input = []byte(w[0] + lit + w[1])
					wc.Desc = fmt.Sprintf("special literal (%s) wrapped as %q..%q", trunc(cs.Describe()), w[0], w[1])
					wc.P = [4]int{wi, 0, 0, 0}
					sink(wc)
				}
			})
		case "W2":
			if c.Thorough() {
				workload.W2(1, c.Seed, sink)
			} else {
				workload.W2(24, c.Seed, sink)
			}
		case "W1R":
			workload.W1R(sink)
			workload.W1D(sink)
			workload.W1N(sink)
			workload.W1S(sink)
			workload.W1Words(sink)
			workload.W7PositionsInDocs(36, sink)
			workload.W1RI(sink)
			workload.W1Depth(sink)
			workload.W1Width(sink)
			workload.W7AdjacentInDocs(sink)
			workload.W1Pow(sink)
			workload.W1First(sink)
			workload.W1RL(sink)
			workload.W1Len(sink)
			workload.W1Uni(sink)
			workload.W7Runs(sink)
			workload.W7LongPositionsInDocs(sink)
		case "W2T":
			workload.W2T(c.Thorough(), sink)
		case "W2small": // a smaller sample for monitors whose per-case cost is high
			if c.Thorough() {
				workload.W2(8, c.Seed, sink)
			} else {
				workload.W2(96, c.Seed, sink)
			}
		case "W3":
			n := 300000
			if c.Thorough() {
				n = 5000000
			}
			workload.W3(n, c.Seed, sink)
			workload.W11(n/8, c.Seed, sink)
		case "W3small":
			n := 100000
			if c.Thorough() {
				n = 1500000
			}
			workload.W3(n, c.Seed, sink)
			workload.W11(n/8, c.Seed, sink)
		case "W4":
			if c.Thorough() {
				workload.W4Thorough(sink)
			} else {
				workload.W4Quick(sink)
			}
		case "W5small":
			workload.W5([]int{3000, 70000}, sink)
		case "W5":
			if c.Thorough() {
				workload.W5([]int{1000, 70000, 1 << 20, 4 << 20}, sink)
			} else {
				workload.W5([]int{1000, 70000, 1 << 20}, sink)
			}
		default:
			panic("unknown family " + f)
		}
	}
}

func b64(b []byte) string { return h.B64(b) }

// jsonSkip is the encoding/json streaming-decoder oracle: (ok, offset after first value).
func jsonSkip(data []byte) (int, bool) {
	dec := json.NewDecoder(bytes.NewReader(data))
	dec.UseNumber()
	var v interface{}
	if err := dec.Decode(&v); err != nil {
		return 0, false
	}
	return int(dec.InputOffset()), true
}

// Parsed is the reference model's view of one input, self-checked against encoding/json.
type Parsed struct {
	Node  *refmodel.Node
	OK    bool // first value well-formed and nested <= 10,000
	Valid bool // whole input is one value plus whitespace
}

// Parse runs the reference model and monitors it against encoding/json. A disagreement is
// a harness fault (HARNESS-INCONSISTENT), never a property violation.
func (c *Ctx) Parse(cs *h.Case) Parsed {
	d := cs.Input
	n, ok := refmodel.ParseValue(d)
	p := Parsed{Node: n, OK: ok}
	if ok {
		p.Valid = refmodel.SkipWS(d, n.End) == len(d)
	}
	jv := json.Valid(d)
	if jv != p.Valid {
		c.Rec.Inconsistent(cs, "model.Valid != json.Valid", fmt.Sprint(jv), fmt.Sprint(p.Valid))
	}
	jp, jok := jsonSkip(d)
	if jok != ok || (ok && jp != n.End) {
		c.Rec.Inconsistent(cs, "model.Skip != json.Decoder", fmt.Sprintf("ok=%v end=%d", jok, jp), fmt.Sprintf("ok=%v node=%+v", ok, n))
	}
	c.Rec.R.Counters["model_selfchecks"]++
	return p
}

func errStr(err error) string {
	if err == nil {
		return "<nil>"
	}
	return err.Error()
}

// deepDirtyBuffer returns a Buffer whose stack has been grown far beyond the depth limit and
// left dirty by OTHER buffer-taking functions: the handler traversals have no depth limit of
// their own and share the Buffer type, so a caller may legitimately hand such a buffer to
// Valid / SkipValue / SkipValueFast afterwards (found necessary by seeded change C01/m2).
func deepDirtyBuffer() *rjson.Buffer {
	var b rjson.Buffer
	deep := bytes.Repeat([]byte("["), 30000)
	rjson.HandleArrayValues(deep, nopArrayHandler{}, &b) // unclosed: aborted at depth 30,000
	obj := append(bytes.Repeat([]byte(`[{"a":`), 8000), []byte("0")...)
	obj = append(obj, bytes.Repeat([]byte("}]"), 8000)...)
	rjson.HandleArrayValues(obj, nopArrayHandler{}, &b) // complete 16,000-deep document
	rjson.HandleObjectValues([]byte(`{"k":`+string(deep)), nopObjectHandler{}, &b)
	return &b
}

// bait is what the spare capacity behind an input is filled with when the "results depend only
// on data[:len]" oracle is applied: bytes that would plausibly continue any token.
var bait = []byte(`\udc00\udc00"5e5]}],"k":1}0123456789abcdef"]}` + "\x00\x00 \n")

// withBait returns a copy of d that has bait bytes in its spare capacity (len unchanged). When d
// ends inside a literal, the bait begins with the rest of that literal (an over-read through the
// capacity then COMPLETES the token: seeded change C13r5-m1), otherwise with the generic bait.
func withBait(d []byte) []byte {
	lead := ""
	if n := len(d); n > 0 && (d[n-1] >= '0' && d[n-1] <= '9' || d[n-1] == '-' || d[n-1] == '.' || d[n-1] == 'e' || d[n-1] == 'E' || d[n-1] == '+') {
		lead = "1234567890123456789012," // an over-read EXTENDS a number (seeded change C05r7-m1)
	}
	for _, lit := range [...]string{"null", "true", "false"} {
		for k := len(lit) - 1; k >= 1; k-- {
			if len(d) >= k && string(d[len(d)-k:]) == lit[:k] {
				lead = lit[k:] + ","
				break
			}
		}
		if lead != "" {
			break
		}
	}
	big := make([]byte, len(d), len(d)+len(lead)+len(bait))
	copy(big, d)
	n := copy(big[len(d):cap(big)], lead)
	copy(big[len(d)+n:cap(big)], bait)
	return big
}

// values that do not fit a 32-bit int are produced at run time so that the checker also builds for
// GOARCH=386 (C05 runs the int / uint readers there too); on 64-bit platforms they are the
// constants their names say.
var (
	v40       int64  = 1 << 40
	off40            = int(v40) // 1<<40 (64-bit) / 0 (32-bit)
	vSentInt  int64  = -987654321987
	sentInt          = int(vSentInt)
	vSentUint uint64 = 987654321987
	sentUint         = uint(vSentUint)
)

// concurrentPure runs f, a function of the document only, from 16 goroutines at once on documents
// of different shapes and compares every result with what the same call returned when it ran alone
// (results only; the race-detector side of concurrency is C18). Seeded change C01r6-m1: Valid with a
// nil buffer borrowed a pooled stack and put it back while still using it.
func concurrentPure(c *Ctx, entry string, f func(d []byte) string) {
	if c.NShards > 1 && c.Shard != 2%c.NShards {
		return
	}
	if c.Replay != nil {
		return
	}
	const G = 24
	docs := make([][]byte, 0, G)
	for g := 0; g < G; g++ {
		pat := workload.NestPatterns[(g*5)%len(workload.NestPatterns)]
		inner := workload.NestInner[g%len(workload.NestInner)]
		nest := workload.BuildNest(pat, 20+7*g, inner, 20+7*g)
		var d []byte
		d = append(d, '[')
		for k := 0; k < 40; k++ {
			d = append(d, nest...)
			d = append(d, ',')
			d = append(d, workload.W3Valid(c.Seed, uint64(g*100+k))...)
			d = append(d, ',')
		}
		d = append(d, `"end\n"]`...)
		if g%5 == 4 {
			d = d[:len(d)-1] // one goroutine in five works on a truncated document
		}
		docs = append(docs, d)
	}
	alone := make([]string, G)
	for g := range docs {
		alone[g] = f(docs[g])
	}
	cs := &h.Case{Family: "concurrent-callers", Desc: "24 goroutines, each calling " + entry + " 400 times on its own document (nests of different shapes and depths 20..181 interleaved with generated documents, 3-60 KB)"}
	cs.Input = []byte(cs.Desc)
	c.Rec.R.Cases++
	var bad int64
	var first atomic.Value
	var wg sync.WaitGroup
	for g := 0; g < G; g++ {
		wg.Add(1)
		go func(g int) {
			defer wg.Done()
			defer func() {
				if r := recover(); r != nil {
					atomic.AddInt64(&bad, 1)
					first.Store(fmt.Sprintf("goroutine %d panicked: %v", g, r))
				}
			}()
			for round := 0; round < 400; round++ {
				if got := f(docs[g]); got != alone[g] {
					if atomic.AddInt64(&bad, 1) == 1 {
						first.Store(fmt.Sprintf("goroutine %d round %d: %s, alone: %s", g, round, got, alone[g]))
					}
				}
			}
		}(g)
	}
	wg.Wait()
	c.Rec.Evals(G * 401)
	c.Rec.Count("concurrent_calls_compared_with_the_same_call_alone", G*400)
	if bad > 0 {
		fb, _ := first.Load().(string)
		c.Rec.AddViolation(h.Violation{Property: c.Prop, Oracle: entry + " returns something else when other goroutines call it on other documents at the same time", Entry: entry, Family: cs.Family, Desc: cs.Desc, Script: "concurrent", Expected: "the result of the same call running alone", Observed: fmt.Sprintf("%d differing results; first: %s", bad, fb), Seed: c.Seed, Tier: c.Tier})
	}
}
