// Package harness holds what every monitor shares: case descriptors, the per-worker
// recorder (counts, samples, violations), hash sharding, crash attribution through a
// MAP_SHARED last-case file, and read-only guard pages for inputs.
package harness

import (
	"encoding/base64"
	"encoding/json"
	"fmt"
	"hash/fnv"
	"os"
	"sort"
	"strconv"
	"strings"
	"sync"
)

// Case is one generated input. It is a pure function of (Family, generator position, seed).
type Case struct {
	Family string // workload family, e.g. "W1"
	Desc   string // how it was generated, e.g. "seed#12 replace pos=3 byte=0x22" (built lazily)
	Input  []byte
	Deep   bool // nesting known to exceed 10,000
	// DescFn builds Desc on demand from the numeric parameters P (building a string or a
	// closure per case would dominate the run)
	DescFn func(c *Case) string
	P      [4]int
}

func (c *Case) Describe() string {
	if c.Desc == "" && c.DescFn != nil {
		c.Desc = c.DescFn(c)
	}
	return c.Desc
}

func Hash(b []byte) uint64 {
	// FNV-1a 64, inlined for speed
	h := uint64(14695981039346656037)
	for _, c := range b {
		h ^= uint64(c)
		h *= 1099511628211
	}
	// final avalanche so that h % nshards is well spread
	h ^= h >> 33
	h *= 0xff51afd7ed558ccd
	h ^= h >> 33
	return h
}

func HashString(s string) uint64 {
	f := fnv.New64a()
	f.Write([]byte(s))
	return f.Sum64()
}

// Violation is one witness; it is everything a replay needs.
type Violation struct {
	Property string `json:"property"`
	Oracle   string `json:"oracle"`           // which oracle fired, e.g. "Valid!=model"
	Entry    string `json:"entry,omitempty"`  // API entry point
	Family   string `json:"family,omitempty"` // workload family
	Desc     string `json:"desc,omitempty"`
	InputB64 string `json:"input_b64,omitempty"`
	InputQ   string `json:"input_quoted,omitempty"` // %q of (a prefix of) the input, for humans
	Script   string `json:"script,omitempty"`       // handler program / history descriptor
	Expected string `json:"expected,omitempty"`
	Observed string `json:"observed,omitempty"`
	Seed     int64  `json:"seed"`
	Tier     string `json:"tier,omitempty"`
	Key      string `json:"key"` // identity used to match known findings and to de-duplicate
	Harness  bool   `json:"harness_inconsistent,omitempty"`
	Crash    string `json:"crash,omitempty"` // panic value + stack, or child exit description
}

func (v *Violation) Input() []byte {
	b, _ := base64.StdEncoding.DecodeString(v.InputB64)
	return b
}

// Report is what one worker (shard) hands to the driver.
type Report struct {
	Property     string              `json:"property"`
	Shard        int                 `json:"shard"`
	Cases        int64               `json:"cases"`          // distinct inputs / histories processed by this shard
	Duplicates   int64               `json:"duplicates"`     // generated inputs skipped because already seen
	Evaluations  int64               `json:"evaluations"`    // monitored executions of the code under test
	Nontrivial   int64               `json:"nontrivial"`     // distinct cases passing the property's non-triviality rule
	Counters     map[string]int64    `json:"counters"`       // named event counts
	Sets         map[string][]string `json:"sets,omitempty"` // named sets of distinct things observed (merged by union)
	Samples      []interface{}       `json:"samples"`
	Violations   []Violation         `json:"violations"`
	NViolations  int64               `json:"n_violations"`
	Inconsistent []Violation         `json:"inconsistent"` // model != encoding/json etc: harness faults
	Notes        []string            `json:"notes,omitempty"`
	Floats       map[string]float64  `json:"floats,omitempty"`
}

// Recorder accumulates a Report. Safe for concurrent use (C18 needs it).
type Recorder struct {
	mu       sync.Mutex
	R        Report
	Seed     int64
	Tier     string
	seen     map[uint64]struct{}
	sets     map[string]map[string]struct{}
	vkeys    map[string]bool
	maxViol  int
	maxSamp  int
	sampleAt int64
}

func NewRecorder(prop string, shard int, seed int64, tier string) *Recorder {
	return &Recorder{
		R:       Report{Property: prop, Shard: shard, Counters: map[string]int64{}, Floats: map[string]float64{}},
		Seed:    seed,
		Tier:    tier,
		seen:    map[uint64]struct{}{},
		sets:    map[string]map[string]struct{}{},
		vkeys:   map[string]bool{},
		maxViol: 40,
		maxSamp: 6,
	}
}

// FirstSight reports whether hash h has not been seen by this shard before.
func (r *Recorder) FirstSight(h uint64) bool {
	if _, ok := r.seen[h]; ok {
		r.R.Duplicates++
		return false
	}
	r.seen[h] = struct{}{}
	return true
}

func (r *Recorder) Count(name string, n int64) {
	r.mu.Lock()
	r.R.Counters[name] += n
	r.mu.Unlock()
}

// C is the unlocked fast path for single-threaded monitors.
func (r *Recorder) C(name string) { r.R.Counters[name]++ }

// CN counts and returns the new count (for "every n-th eligible observation" sampling).
func (r *Recorder) CN(name string) int64 { r.R.Counters[name]++; return r.R.Counters[name] }

func (r *Recorder) Max(name string, v int64) {
	if r.R.Counters[name] < v {
		r.R.Counters[name] = v
	}
}

func (r *Recorder) SetAdd(set, elem string) {
	r.mu.Lock()
	m := r.sets[set]
	if m == nil {
		m = map[string]struct{}{}
		r.sets[set] = m
	}
	m[elem] = struct{}{}
	r.mu.Unlock()
}

func (r *Recorder) Evals(n int64) { r.R.Evaluations += n }

func (r *Recorder) Sample(s interface{}) {
	r.mu.Lock()
	if len(r.R.Samples) < r.maxSamp {
		r.R.Samples = append(r.R.Samples, s)
	}
	r.mu.Unlock()
}

func (r *Recorder) WantSample() bool { return len(r.R.Samples) < r.maxSamp }

func quote(b []byte) string {
	if len(b) > 200 {
		return fmt.Sprintf("%q...(%d bytes)", b[:200], len(b))
	}
	return fmt.Sprintf("%q", b)
}

func Quote(b []byte) string { return quote(b) }

// Violate records a violation witnessed on case c.
func (r *Recorder) Violate(c *Case, oracle, entry, expected, observed string) {
	v := Violation{Property: r.R.Property, Oracle: oracle, Entry: entry, Expected: expected, Observed: observed, Seed: r.Seed, Tier: r.Tier}
	if c != nil {
		v.Family = c.Family
		v.Desc = c.Describe()
		if len(c.Input) <= 1<<20 {
			v.InputB64 = base64.StdEncoding.EncodeToString(c.Input)
		}
		v.InputQ = quote(c.Input)
	}
	r.AddViolation(v)
}

func (r *Recorder) AddViolation(v Violation) {
	if strconv.IntSize == 32 && !strings.Contains(v.Desc, "GOARCH=386") {
		// the 32-bit pass: say so, `check --replay` then uses the 32-bit build too
		v.Desc += " [observed on the GOARCH=386 build]"
	}
	if v.Key == "" {
		v.Key = v.Oracle + "|" + v.Entry + "|" + v.InputQ + "|" + v.Script
	}
	r.mu.Lock()
	defer r.mu.Unlock()
	r.R.NViolations++
	if r.vkeys[v.Key] {
		return
	}
	r.vkeys[v.Key] = true
	if len(r.R.Violations) < r.maxViol {
		r.R.Violations = append(r.R.Violations, v)
	}
}

// Inconsistent records a harness fault: the reference model disagrees with
// encoding/json / strconv. It is never reported as a property violation.
func (r *Recorder) Inconsistent(c *Case, what, expected, observed string) {
	v := Violation{Property: r.R.Property, Oracle: what, Expected: expected, Observed: observed, Seed: r.Seed, Harness: true}
	if c != nil {
		v.Family = c.Family
		v.Desc = c.Describe()
		v.InputB64 = base64.StdEncoding.EncodeToString(c.Input)
		v.InputQ = quote(c.Input)
	}
	r.mu.Lock()
	if len(r.R.Inconsistent) < 20 {
		r.R.Inconsistent = append(r.R.Inconsistent, v)
	}
	r.mu.Unlock()
}

func (r *Recorder) Finish() *Report {
	r.R.Sets = map[string][]string{}
	for k, m := range r.sets {
		l := make([]string, 0, len(m))
		for e := range m {
			l = append(l, e)
		}
		sort.Strings(l)
		r.R.Sets[k] = l
	}
	return &r.R
}

func (rep *Report) WriteFile(path string) error {
	b, err := json.Marshal(rep)
	if err != nil {
		return err
	}
	return os.WriteFile(path, b, 0o644)
}

func ReadReport(path string) (*Report, error) {
	b, err := os.ReadFile(path)
	if err != nil {
		return nil, err
	}
	var r Report
	if err := json.Unmarshal(b, &r); err != nil {
		return nil, err
	}
	return &r, nil
}

// Merge folds b into a.
func (a *Report) Merge(b *Report) {
	a.Cases += b.Cases
	a.Duplicates += b.Duplicates
	a.Evaluations += b.Evaluations
	a.Nontrivial += b.Nontrivial
	a.NViolations += b.NViolations
	if a.Counters == nil {
		a.Counters = map[string]int64{}
	}
	for k, v := range b.Counters {
		if strings.HasPrefix(k, "max_") {
			if a.Counters[k] < v {
				a.Counters[k] = v
			}
		} else {
			a.Counters[k] += v
		}
	}
	if a.Floats == nil {
		a.Floats = map[string]float64{}
	}
	for k, v := range b.Floats {
		if strings.HasPrefix(k, "max_") {
			if a.Floats[k] < v {
				a.Floats[k] = v
			}
		} else {
			a.Floats[k] += v
		}
	}
	if a.Sets == nil {
		a.Sets = map[string][]string{}
	}
	for k, l := range b.Sets {
		m := map[string]struct{}{}
		for _, e := range a.Sets[k] {
			m[e] = struct{}{}
		}
		for _, e := range l {
			m[e] = struct{}{}
		}
		out := make([]string, 0, len(m))
		for e := range m {
			out = append(out, e)
		}
		sort.Strings(out)
		a.Sets[k] = out
	}
	for _, s := range b.Samples {
		if len(a.Samples) < 10 {
			a.Samples = append(a.Samples, s)
		}
	}
	a.Violations = append(a.Violations, b.Violations...)
	a.Inconsistent = append(a.Inconsistent, b.Inconsistent...)
	a.Notes = append(a.Notes, b.Notes...)
}

func B64(b []byte) string { return base64.StdEncoding.EncodeToString(b) }
