package harness

import (
	"encoding/binary"
	"fmt"
	"os"
	"runtime/debug"
	"syscall"
	"unsafe"
)

// LastCase is a MAP_SHARED file into which a worker copies the case it is about to run
// (no system call per case). If the worker dies with a fatal error (stack exhaustion,
// concurrent map write, kill) the driver reads the file and attributes the death to an
// exact, replayable input.
type LastCase struct {
	mem []byte
}

const lastCaseSize = 24 << 20

// layout: [0:8) sequence number, [8:16) input length, [16:24) meta length, [24:24+meta) meta, then input

func OpenLastCase(path string) (*LastCase, error) {
	f, err := os.OpenFile(path, os.O_RDWR|os.O_CREATE|os.O_TRUNC, 0o644)
	if err != nil {
		return nil, err
	}
	defer f.Close()
	if err := f.Truncate(lastCaseSize); err != nil {
		return nil, err
	}
	m, err := syscall.Mmap(int(f.Fd()), 0, lastCaseSize, syscall.PROT_READ|syscall.PROT_WRITE, syscall.MAP_SHARED)
	if err != nil {
		return nil, err
	}
	return &LastCase{mem: m}, nil
}

// Set records the case about to run. meta is a short description (entry point, family, script).
func (l *LastCase) Set(seq uint64, meta string, input []byte) {
	if l == nil {
		return
	}
	if len(meta) > 4096 {
		meta = meta[:4096]
	}
	binary.LittleEndian.PutUint64(l.mem[0:], seq)
	n := len(input)
	if 24+len(meta)+n > len(l.mem) {
		n = len(l.mem) - 24 - len(meta)
	}
	binary.LittleEndian.PutUint64(l.mem[8:], uint64(n))
	binary.LittleEndian.PutUint64(l.mem[16:], uint64(len(meta)))
	copy(l.mem[24:], meta)
	copy(l.mem[24+len(meta):], input[:n])
}

// SetMeta updates only the description (cheap; used between the calls made on one input).
func (l *LastCase) SetMeta(meta string) {
	if l == nil {
		return
	}
	// meta region is fixed-size when SetMeta is used: callers must have called Set with a
	// meta of at least the same length; otherwise we would overwrite the input. Keep simple:
	// only overwrite when it fits into the previous meta length.
	ml := int(binary.LittleEndian.Uint64(l.mem[16:]))
	if len(meta) > ml {
		meta = meta[:ml]
	}
	copy(l.mem[24:], meta)
	for i := 24 + len(meta); i < 24+ml; i++ {
		l.mem[i] = ' '
	}
}

func ReadLastCase(path string) (seq uint64, meta string, input []byte, err error) {
	b, err := os.ReadFile(path)
	if err != nil {
		return 0, "", nil, err
	}
	if len(b) < 24 {
		return 0, "", nil, fmt.Errorf("short last-case file")
	}
	seq = binary.LittleEndian.Uint64(b[0:])
	n := int(binary.LittleEndian.Uint64(b[8:]))
	ml := int(binary.LittleEndian.Uint64(b[16:]))
	if 24+ml+n > len(b) {
		return seq, "", nil, fmt.Errorf("corrupt last-case file")
	}
	return seq, string(b[24 : 24+ml]), append([]byte(nil), b[24+ml:24+ml+n]...), nil
}

// Guard is an anonymous mapping whose pages can be made read-only; inputs are copied to
// its END so that the byte after the input is an unmapped/inaccessible page boundary only
// when the mapping ends there. Writes into a read-only Guard fault; with
// debug.SetPanicOnFault(true) the fault becomes a recoverable panic in the calling goroutine.
type Guard struct {
	mem  []byte
	size int
}

func NewGuard(size int) (*Guard, error) {
	ps := os.Getpagesize()
	size = (size + ps - 1) / ps * ps
	m, err := syscall.Mmap(-1, 0, size, syscall.PROT_READ|syscall.PROT_WRITE, syscall.MAP_ANON|syscall.MAP_PRIVATE)
	if err != nil {
		return nil, err
	}
	debug.SetPanicOnFault(true)
	return &Guard{mem: m, size: size}, nil
}

func (g *Guard) Cap() int { return g.size }

// Protect copies b to the end of the mapping, makes the whole mapping read-only and
// returns the read-only slice (len == cap == len(b), so that an append must reallocate
// and any write through the slice faults).
func (g *Guard) Protect(b []byte) []byte {
	if len(b) > g.size {
		return nil
	}
	if err := syscall.Mprotect(g.mem, syscall.PROT_READ|syscall.PROT_WRITE); err != nil {
		panic(err)
	}
	off := g.size - len(b)
	copy(g.mem[off:], b)
	if err := syscall.Mprotect(g.mem, syscall.PROT_READ); err != nil {
		panic(err)
	}
	return g.mem[off:g.size:g.size]
}

func (g *Guard) Close() {
	syscall.Mprotect(g.mem, syscall.PROT_READ|syscall.PROT_WRITE)
	syscall.Munmap(g.mem)
}

// Batch mode: Begin, Add..., Seal. Slices returned by Add become read-only at Seal.
type GuardBatch struct {
	g   *Guard
	off int
}

func (g *Guard) Begin() *GuardBatch {
	if err := syscall.Mprotect(g.mem, syscall.PROT_READ|syscall.PROT_WRITE); err != nil {
		panic(err)
	}
	return &GuardBatch{g: g}
}

// Add copies b into the mapping; ok=false when the mapping is full.
func (b *GuardBatch) Add(in []byte) ([]byte, bool) {
	if b.off+len(in) > b.g.size {
		return nil, false
	}
	s := b.g.mem[b.off : b.off+len(in) : b.off+len(in)]
	copy(s, in)
	b.off += len(in)
	return s, true
}

func (b *GuardBatch) Seal() {
	if err := syscall.Mprotect(b.g.mem, syscall.PROT_READ); err != nil {
		panic(err)
	}
}

// Overlaps reports whether the backing arrays of a and b (up to their capacities) share memory.
func Overlaps(a, b []byte) bool {
	if cap(a) == 0 || cap(b) == 0 {
		return false
	}
	a, b = a[:cap(a)], b[:cap(b)]
	pa, pb := uintptr(unsafe.Pointer(&a[0])), uintptr(unsafe.Pointer(&b[0]))
	return pa < pb+uintptr(len(b)) && pb < pa+uintptr(len(a))
}
