#!/bin/bash
# usage: tools/trymutant.sh <patch.diff> <ID> [ID...]
# Applies a seeded change to /repo, runs the quick checks named, restores /repo and the evidence files.
set -u
P=$(readlink -f "$1"); shift
TIER=${TIER:-quick}
cd /repo || exit 9
if [ -n "$(git status --short)" ]; then echo "/repo not clean"; exit 9; fi
git apply --check "$P" || { echo "patch does not apply"; exit 9; }
git apply "$P"
mkdir -p /tmp/mut/logs
for id in "$@"; do
  L=/tmp/mut/logs/$(basename $(dirname "$P"))_$(basename $(dirname $(dirname "$P")))_$id.txt
  (cd /verif && VERIF_COVER=0 timeout 3000 ./check $id $TIER > "$L" 2>&1; echo "$id exit=$? $(grep -c '^VIOLATION' $L) violations; $(grep -m1 'oracle=' $L | cut -c1-200)")
done
git -C /repo checkout -- . ; git -C /repo clean -fdq; git -C /repo status --short
git -C /verif checkout -- evidence
