#!/usr/bin/env python3
"""Regenerates /verif/MANIFEST.json from the table below (kept in one place so the file stays valid)."""
import json, subprocess, sys, os

CHECKS = {
 # id: (technique, level text, level note, design ref)
}
def add(i, technique, text, note, ref):
    CHECKS[i] = (technique, text, note, ref)

TB = ("Trusted base: the recursive-descent reference model in /verif/internal/refmodel (itself monitored against encoding/json and strconv on every input; disagreement => inconclusive), "
      "Go's runtime checks, and the workload generators. Nothing is proved: held means held on the executions counted in the evidence file.")

add("C01", "runtime differential monitor: rjson.Valid observed beside a reference-model parser (itself monitored against encoding/json) on a (grammar position x byte value) sweep, splices, generated faulty documents and depth-boundary documents and the structured product families of DESIGN.md section 4 (runs, lengths, depths, widths, first bytes, multi-byte look-alikes), with nil / fresh / long-lived / deep-dirty buffers; plus 24 concurrent callers compared with the same call alone",
    "Exploration. Every single-edit neighbour (all 256 byte values replaced, 48-256 inserted/appended, at every position) of ~1,150 context x token seed documents, a splice family, generated documents with injected faults and every nesting site at depth 9,999/10,000/10,001 are executed and compared with the model. Right level: the property quantifies over all byte strings, which no finite run covers; what can be covered is every (machine state, byte class) transition, and the sweep is built to do that.",
    TB, "§5 C01")
add("C02", "runtime differential monitor: rjson.SkipValue (success, offset) observed beside the reference model / json.Decoder on the byte sweep plus every token followed by every byte value and the structured product families, four buffer states, concurrent callers compared with the same call alone",
    "Exploration over the C01 sweep plus the follower family (59 tokens x 256 following bytes x 5 contexts x 2); offsets compared exactly on success.", TB, "§5 C02")
add("C03", "runtime differential monitor: ReadValue/ReadObject/ReadArray (package level, fresh and long-lived ValueReader) observed beside the model tree and encoding/json's tree; callers modify results and fill the spare capacity of returned slices in between; record documents (W11)",
    "Exploration over generated documents (duplicate/escaped keys, invalid UTF-8, empty containers, overflow numbers), the byte sweep, depth boundary and splices; trees compared bit-exactly.", TB, "§5 C03")
add("C04", "runtime differential monitor: ReadFloat64/DecodeFloat64/ReadValue observed beside strconv.ParseFloat and exact big.Rat rounding on decimals constructed next to float midpoints through every Eisel-Lemire table row",
    "Exploration aimed at rounding boundaries: per table row decimals within ~1e-19 of a midpoint, exact midpoint expansions truncated at 15..770 digits +-1ulp, >800-digit sticky tails, overflow/underflow thresholds at every length. Right level: errors of a float parser live on measure-zero sets that only constructed inputs reach.",
    TB + " Oracle: strconv.ParseFloat, re-derived with exact rational arithmetic on a sample; exact arithmetic alone where strconv is itself wrong (integer part > 800 digits, exponents of five or more digits).", "§5 C04")
add("C05", "runtime differential monitor: six Read* and six Decode* integer functions observed beside a math/big model on windows around every type bound and digit-count switch-over, with every follower byte; the same again on a GOARCH=386 build (32-bit int/uint paths)",
    "Exploration: every value within +-300 (quick) / +-5,000 (thorough) of 26 boundary centres x 3 prefixes x 21 followers, hand shapes, random digit strings, byte sweep of top-level tokens.", TB, "§5 C05")
add("C06", "runtime differential monitor: ReadStringBytes/ReadString/DecodeString/UnescapeStringContent observed beside the model string scanner on all 65,536 \\u units, surrogate grids, per-byte template sweeps, position and adjacent-byte sweeps up to 8,192 bytes, destination-capacity boundaries, scratch shapes (nil, dirty, lazily grown, 128 KiB) and strings held across scratch reuse",
    "Exploration; all code units and every high/low surrogate enumerated, (high,low) grid sampled in quick and complete in thorough, destinations of capacity 0..need+4.", TB, "§5 C06")
add("C07", "callback event log checked offline: a logging probe handler under every mask of 'return 0 / return exact end' answers; log (offset, aliasing, raw key) compared with the model's member list; handlers that find the end with SkipValue on the traversal's own Buffer and that propagate wrapped standard errors; record documents (W11)",
    "Exploration over the byte sweep, generated documents and depth boundary (<= 10,000), all 2^m answer masks for m <= 8 callbacks.", TB, "§5 C07")
add("C08", "runtime differential monitor: PRNG-chosen API-composition decoders (typed readers, Decode*, SkipValue, SkipValueFast, return 0, nested handlers) observed beside direct ReadValue, with a long-lived skip Buffer and field-name scratch kept across documents; direct decoding also through a long-lived ValueReader (three entry points, either order); record documents (W11)",
    "Exploration: 4 (quick) / 10 (thorough) composition programs per document over generated documents, the byte sweep and nestings <= 10,000.", TB + " Documents nested deeper than 10,000 are excluded (the handler traversal has no depth limit, direct decoding has).", "§5 C08")
add("C09", "callback event log + error identity: a probe handler fails at call k with a unique sentinel error and a hostile accompanying offset; returned error (fresh sentinels, the library's own error values, a typed nil, standard-library and wrapped errors) compared by identity, calls counted; handlers that re-enter with the traversal's Buffer; structured standard-library errors with their contents watched; another call on the same document and Buffer first",
    "Exploration: every failing position for <= 8 callbacks x 11 accompanying offsets incl. MaxInt/MinInt, both traversals, members of every kind.", TB, "§5 C09")
add("C10", "crash/panic/hang monitor: every exported function and hostile handler programs run on hostile inputs held in PROT_READ guard pages, one worker process per shard with last-case attribution and a stall watchdog; returned offsets range-checked; hostile handlers that re-enter with the traversal's own Buffer",
    "Exploration: 45 call forms x raw bytes, byte sweep, generated/faulty documents, nestings to 1,048,576 levels, megabyte tokens; handler offsets negative/beyond end/near MaxInt/MinInt/off-by-one/mid-token.", TB + " Go's bounds/nil checks are the memory-safety sanitizer; the library imports neither unsafe nor cgo.", "§5 C10")
add("C11", "runtime differential monitor: SkipValueFast observed beside SkipValue on every input where the real SkipValue succeeds (with any of four Buffer states; the long-lived Buffer is shared by both skippers); concurrent callers compared with the same call alone",
    "Exploration over the C02 inputs; precondition taken from the real SkipValue so the check is independent of C02's model.", TB, "§5 C11")
add("C12", "runtime monitor of (offset, error, target before/after) for all nine Decode* functions with two sentinel targets, expected outcome derived from the corresponding Read* and a null-prefix test; targets correlated with the input, cap==len and baited copies, an aliasing history for DecodeString, a 128 KiB scratch; the same again on a GOARCH=386 build",
    "Exploration over literal corruptions (every byte, every position), the top-level byte sweep, integer/float literals and generated strings.", TB, "§5 C12")
add("C13", "runtime monitor against an independently written token table, EXHAUSTIVE over whitespace prefixes x next byte; literal readers on every one-byte corruption; type exclusivity over sweeps and token soups, including the methods of one long-lived ValueReader; token functions also on cap==len and baited copies; inputs held in read-only guard pages",
    "Exploration with an exhaustive finite part: all 85 whitespace prefixes (length <= 3) x all 256 bytes x 4 suffixes.", TB, "§5 C13")
add("C14", "history monitor: every call of a 20-200 call history over one Buffer is shadowed by the same call with no buffer; complete transcripts (results, errors, callback logs, nested re-entrant calls sharing the enclosing call's Buffer) must be identical; every fifth history continues on one Buffer that lives as long as the worker; forced garbage collections between calls in some histories",
    "Exploration: 40,000 (quick) / 600,000 (thorough) histories mixing all five buffer-taking functions, error/depth-limit/handler-abort exits and re-entrant sharing to 4 levels.", TB, "§5 C14")
add("C15", "history monitor: every call on one long-lived ValueReader is shadowed by a fresh reader; deep snapshots of earlier results re-verified after every later call and after the harness modifies later AND older results and fills the spare capacity of returned slices; forced garbage collections, record-themed histories and same-length sibling documents through a refilled input buffer",
    "Exploration: 9,000 (quick) / 120,000 (thorough) histories incl. error and depth-limit exits, limit-, size- and related-document-themed histories; results also compared with the model tree.", TB, "§5 C15")
add("C16", "read-only guard pages (mprotect + SetPanicOnFault) under every API call; append-semantics oracle over 35 destination shapes; scratch-independence (also of the ValueReader's own scratch) and ownership re-reads after overwriting inputs and buffers; same-length sibling documents through a refilled input buffer",
    "Exploration over string tokens, documents and a sample of the byte sweep.", TB + " Write detection relies on the MMU.", "§5 C16")
add("C17", "runtime differential monitor against an independent per-byte U+FFFD model, EXHAUSTIVE over all byte strings of length <= 2 and 3-byte strings with lead byte >= 0x80; trees with argument snapshots; position, window-straddle and incomplete-destination-tail families; decoded documents vs encoding/json; 16 concurrent callers compared with the model; spare capacity of results overwritten; sequences of long strings around every power of two",
    "Exploration with an exhaustive finite part (8,454,401 strings).", TB, "§5 C17")
add("C18", "Go race detector (-race build) over 32 goroutines x seeded whole-API scripts on shared read-only inputs at several GOMAXPROCS, plus sequential re-execution of the same scripts as result oracle; goroutine pairs share arenas of disjoint windows, decoded trees are shared read-only, callers modify what they were given",
    "Exploration: 3 (quick) / 10 (thorough) processes, 2 passes each; reports the distinct co-active function pairs observed.", TB + " The race detector sees only accesses that happen in the run.", "§5 C18")
add("C19", "allocation monitor: runtime.MemStats.Mallocs around 20 calls, three times, GC off, GOMAXPROCS=1, for every listed function on successful inputs of every conversion path with constructed preconditions (exact destination capacities, in-place unescaping, inputs in the caller's stack frame, handlers sharing the traversal's Buffer); plus measured calls after disturbances of the warmed Buffer",
    "Exploration over ~40,000 (quick) inputs; violation iff every call allocates in all three runs.", TB, "§5 C19")
add("C20", "allocation monitor: runtime.MemStats.TotalAlloc over scaling series (n, 2n, 4n) of ~70 adversarial document families x 9 entry points and over big-then-many-small call histories on reused readers/buffers; content-flavoured families (invalid UTF-8 below deep nesting, slow-path numbers in bulk)",
    "Exploration with explicit thresholds for 'linear' recorded in the evidence.", TB + " Thresholds are judgement calls stated in DESIGN.md §5 C20.", "§5 C20")

def main():
    props = [json.loads(l) for l in open('/verif/properties.jsonl')]
    checks = []
    na = []
    for p in props:
        i = p['id']
        if i in CHECKS:
            t, text, note, ref = CHECKS[i]
            checks.append({
                "property_id": i,
                "quick_cmd": f"./check {i} quick",
                "thorough_cmd": f"./check {i} thorough",
                "evidence_file": f"/verif/evidence/{i}.json",
                "replay_cmd_template": f"./check {i} --replay {{path}}",
                "engine": "vcheck",
                "level_claimed": {"category": "exploration", "text": text, "design_ref": "DESIGN.md " + ref},
                "level_note": note,
                "technique": t,
            })
        else:
            na.append({"property_id": i, "reason": "not claimed"})
    m = {
        "version": 1,
        "setup_cmd": "./check --setup",
        "hooks": {
            "guard": "verif",
            "enable": "go build -tags verif (every check builds /repo's working tree through a replace directive in /verif/go.mod)",
            "baseline_off_cmd": "cd /repo && GOPROXY=off GOSUMDB=off go test -mod=mod -json -vet=off -count=1 -timeout 25m ./...",
            "source_commits": [],
            "add_only": True,
        },
        "engines": [{"name": "vcheck", "path": "/verif/cmd/vcheck", "serves_properties": sorted(CHECKS.keys()),
                     "kind_free_text": "Go driver + per-shard worker processes running runtime monitors (reference-model differential, callback event logs, history shadows, guard pages, race detector, allocation counters) over the real rjson code"}],
        "checks": checks,
        "notes": "All checks rebuild from /repo's working tree on every invocation (go build with replace => /repo). Verdict lines: VIOLATION / KNOWN-FINDING / INCONCLUSIVE. Exit 0 held, 1 violated, 2 build failed, 3 inconclusive.",
        "not_applicable": na,
    }
    json.dump(m, open('/verif/MANIFEST.json', 'w'), indent=1)
    print("claimed:", len(checks), "not claimed:", len(na))

if __name__ == '__main__':
    main()
