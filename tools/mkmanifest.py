#!/usr/bin/env python3
"""Regenerates /verif/MANIFEST.json from the table below (kept in one place so the file stays valid)."""
import json, subprocess, sys, os

CHECKS = {
 # id: (technique, level text, level note, design ref)
}
def add(i, technique, text, note, ref):
    CHECKS[i] = (technique, text, note, ref)

TB = ("Trusted base: the recursive-descent reference model in /verif/internal/refmodel (itself monitored against encoding/json and strconv on every input; disagreement => inconclusive), "
      "Go's runtime checks, and the workload generators. Nothing is proved: held means held on the executions counted in the evidence file.")

add("C01", "runtime differential monitor: rjson.Valid observed beside a reference-model parser on a (grammar position x byte value) sweep, splices, generated documents and depth-boundary documents",
    "Exploration. Every (context, token, position, byte) single-edit neighbour of ~1000 seed documents, splice inputs, generated faulty documents and every nesting site at depth 9,999/10,000/10,001 are executed with nil, fresh and long-lived buffers and compared with the model (= encoding/json).",
    TB, "§5 C01")
add("C02", "runtime differential monitor: rjson.SkipValue (success, offset) observed beside the reference model / json.Decoder on the byte sweep plus every token x every following byte",
    "Exploration over the same sweep as C01 plus the follower family; offsets compared exactly on success.", TB, "§5 C02")
add("C11", "runtime differential monitor: SkipValueFast observed beside SkipValue on every input where the real SkipValue succeeds",
    "Exploration; precondition taken from the real SkipValue so the check is independent of C02's model.", TB, "§5 C11")

def main():
    props = [json.loads(l) for l in open('/verif/properties.jsonl')]
    checks = []
    na = []
    for p in props:
        i = p['id']
        if i in CHECKS:
            t, text, note, ref = CHECKS[i]
            checks.append({
                "property_id": i,
                "quick_cmd": f"./check {i} quick",
                "thorough_cmd": f"./check {i} thorough",
                "evidence_file": f"/verif/evidence/{i}.json",
                "replay_cmd_template": f"./check {i} --replay {{path}}",
                "engine": "vcheck",
                "level_claimed": {"category": "exploration", "text": text, "design_ref": "DESIGN.md " + ref},
                "level_note": note,
                "technique": t,
            })
        else:
            na.append({"property_id": i, "reason": "check not built yet in this session (work in progress; will be claimed once its monitor exists)"})
    m = {
        "version": 1,
        "setup_cmd": "./check --setup",
        "hooks": {
            "guard": "verif",
            "enable": "go build -tags verif (every check builds /repo's working tree through a replace directive in /verif/go.mod)",
            "baseline_off_cmd": "cd /repo && GOFLAGS=-mod=mod GOPROXY=off GOSUMDB=off go test -vet=off -count=1 -timeout 25m ./...",
            "source_commits": [],
            "add_only": True,
        },
        "engines": [{"name": "vcheck", "path": "/verif/cmd/vcheck", "serves_properties": sorted(CHECKS.keys()),
                     "kind_free_text": "Go driver + per-shard worker processes running runtime monitors (reference-model differential, callback event logs, history shadows, guard pages, race detector, allocation counters) over the real rjson code"}],
        "checks": checks,
        "notes": "All checks rebuild from /repo's working tree on every invocation (go build with replace => /repo). Verdict lines: VIOLATION / KNOWN-FINDING / INCONCLUSIVE. Exit 0 held, 1 violated, 2 build failed, 3 inconclusive.",
        "not_applicable": na,
    }
    json.dump(m, open('/verif/MANIFEST.json', 'w'), indent=1)
    print("claimed:", len(checks), "not claimed:", len(na))

if __name__ == '__main__':
    main()
