#!/bin/bash
# usage: tools/vetmutant.sh <mutant dir (patch.diff, demo_test.go, notes.md)> <scratch worktree> [check ids... | all]
# 1. confirms in the scratch worktree: demo passes pristine, fails with the patch, existing suite passes with the patch
# 2. runs the named checks (quick) against the patched scratch tree via VERIF_REPO (nothing touches /repo or /verif/evidence)
set -u
M=$(readlink -f "$1"); WT=$(readlink -f "$2"); shift 2
export GOFLAGS=-mod=mod GOPROXY=off GOSUMDB=off GOTOOLCHAIN=local
NAME=$(basename $(dirname "$M"))_$(basename "$M")
OUT=/tmp/mut/results/${RPREFIX:-}$NAME; mkdir -p "$OUT"
cd "$WT" || exit 9
git checkout -q -- . && git clean -fdq
# where does the demo go?
DEMODIR=.
if grep -q '^package fp' "$M/demo_test.go"; then DEMODIR=internal/fp; fi
PKG=./$DEMODIR
cp "$M/demo_test.go" $DEMODIR/zz_demo_test.go
TESTS=$(grep -o '^func Test[A-Za-z0-9_]*' $DEMODIR/zz_demo_test.go | sed 's/func //' | paste -sd'|')
go test -vet=off -count=1 -run "^($TESTS)\$" $PKG > "$OUT/demo_pristine.txt" 2>&1; P0=$?
git apply "$M/patch.diff" || { echo "$NAME: PATCH DOES NOT APPLY"; git checkout -q -- .; git clean -fdq; exit 9; }
go test -vet=off -count=1 -run "^($TESTS)\$" $PKG > "$OUT/demo_mutant.txt" 2>&1; P1=$?
rm -f $DEMODIR/zz_demo_test.go
go test -vet=off -count=1 ./... > "$OUT/suite_mutant.txt" 2>&1; P2=$?
echo "$NAME: demo pristine exit=$P0 (want 0), demo mutant exit=$P1 (want !=0), suite with mutant exit=$P2 (want 0)"
IDS="$@"
if [ "$IDS" = "all" ]; then IDS="C01 C02 C03 C04 C05 C06 C07 C08 C09 C10 C11 C12 C13 C14 C15 C16 C17 C18 C19 C20"; fi
CAUGHT=""
for id in $IDS; do
  VERIF_REPO=$WT VERIF_OUT=$OUT VERIF_COVER=0 timeout 3000 ${VERIF_AT:-/verif}/check $id ${TIER:-quick} > "$OUT/check_$id.txt" 2>&1; E=$?
  if [ $E -ne 0 ]; then CAUGHT="$CAUGHT $id(exit$E)"; fi
done
echo "$NAME: caught by:${CAUGHT:- NONE}"
git checkout -q -- . && git clean -fdq
rm -rf "$OUT/.build"
