#!/usr/bin/env python3
"""Regenerates the seeded-change table in DESIGN.md (between the MATRIX markers) from seeded/*/meta.json."""
import json, glob, os, re
rows = []
for f in sorted(glob.glob('/verif/seeded/*/meta.json')):
    m = json.load(open(f))
    caught = sorted(m.get('caught_by_quick_checks', {}).keys())
    hist = m.get('history', '')
    rows.append((m['seeded_change'], m['property'], m['needs_in_order_to_manifest'], caught, hist))
out = ['| seeded change | breaks | needs, in order to manifest | quick checks that report it | note |', '|---|---|---|---|---|']
for name, prop, needs, caught, hist in rows:
    needs = needs.replace('|', '\\|')
    own = prop in caught
    c = ', '.join(('**%s**' % x) if x == prop else x for x in caught) or '**none**'
    out.append('| `%s` | %s | %s | %s | %s |' % (name, prop, needs, c, hist))
n = len(rows)
own = sum(1 for r in rows if r[1] in r[3])
anyc = sum(1 for r in rows if r[3])
summary = '%d seeded changes kept; %d are reported by the quick check of the property they were written against, %d by at least one quick check.' % (n, own, anyc)
p = '/verif/DESIGN.md'
s = open(p, encoding='utf-8').read()
block = '<!-- MATRIX-BEGIN -->\n' + summary + '\n\n' + '\n'.join(out) + '\n<!-- MATRIX-END -->'
if '<!-- MATRIX-BEGIN -->' in s:
    s = re.sub(r'<!-- MATRIX-BEGIN -->.*?<!-- MATRIX-END -->', lambda m: block, s, flags=re.S)
else:
    s += '\n' + block + '\n'
open(p, 'w', encoding='utf-8').write(s)
print(summary)
