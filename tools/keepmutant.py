#!/usr/bin/env python3
"""Copies a vetted seeded change into /verif/seeded/<id>/ with meta.json built from the vetting results.
usage: keepmutant.py <PROP> <m-k> "<what it needs in order to manifest>" """
import sys, os, json, re, shutil, glob
prop, mk, needs = sys.argv[1], sys.argv[2], sys.argv[3]
rnd = sys.argv[4] if len(sys.argv) > 4 else ''   # '' = round 1, 'r2' = round 2
history = sys.argv[5] if len(sys.argv) > 5 else ''
src = f'/tmp/mut/out{rnd[1:] if rnd else ""}/{prop}/{mk}'
res = f'/tmp/mut/results/{rnd + "_" if rnd else ""}{prop}_{mk}'
dst = f'/verif/seeded/{prop}{rnd}-{mk}'
os.makedirs(dst, exist_ok=True)
for f in ['patch.diff', 'demo_test.go', 'notes.md']:
    shutil.copy(os.path.join(src, f), os.path.join(dst, f))
# the demo must not be picked up by `go vet ./...` of /verif: keep it under a name the go tool ignores
os.replace(os.path.join(dst, 'demo_test.go'), os.path.join(dst, 'demo_test.go.txt'))
def tail(p, n=3):
    try:
        return [l for l in open(p).read().strip().split('\n')[-n:]]
    except Exception:
        return []
caught = {}
checks_run = []
for f in sorted(glob.glob(res + '/check_*.txt')):
    checks_run.append(re.search(r'check_(C\d+)\.txt', f).group(1))
    cid = re.search(r'check_(C\d+)\.txt', f).group(1)
    txt = open(f).read()
    nv = len(re.findall(r'^VIOLATION', txt, re.M))
    last = txt.strip().split('\n')[-1] if txt.strip() else ''
    m = re.search(r'oracle="([^"]*)"', txt)
    if nv > 0 or 'INCONCLUSIVE' in txt or 'BUILD-FAILED' in txt:
        caught[cid] = {'violations_reported': nv, 'first_oracle': m.group(1) if m else None, 'summary': last[:200]}
demo = open(os.path.join(dst, 'demo_test.go.txt')).read()
pkg = re.search(r'^package (\w+)', demo, re.M).group(1)
meta = {
    'property': prop,
    'seeded_change': f'{prop}{rnd}-{mk}',
    'written_by': 'independent sub-agent given only the property text and a scratch worktree',
    'files_changed': sorted(set(re.findall(r'^\+\+\+ b/(\S+)', open(os.path.join(dst, 'patch.diff')).read(), re.M))),
    'needs_in_order_to_manifest': needs,
    'demonstration': {'file': 'demo_test.go.txt (copy to %s as *_test.go)' % ('internal/fp/' if pkg == 'fp' else 'the repository root'),
                      'tests': re.findall(r'^func (Test\w+)', demo, re.M)},
    'confirmed_in_scratch_worktree': {
        'demo_on_pristine_tree': 'PASS' if any('ok' in l for l in tail(res + '/demo_pristine.txt')) else 'see log',
        'demo_with_change': 'FAIL' if any('FAIL' in l for l in tail(res + '/demo_mutant.txt', 6)) else 'see log',
        'pinned_suite_with_change': 'PASS' if all(l.startswith('ok') for l in tail(res + '/suite_mutant.txt', 2)) else 'see log',
    },
    'what_was_run': [
        'git apply patch.diff in a scratch worktree of /repo HEAD',
        'go test -vet=off -count=1 -run <demo tests>   (pristine: pass; with change: fail)',
        'go test -vet=off -count=1 ./...               (with change: pass)',
        'VERIF_REPO=<scratch worktree> VERIF_OUT=<scratch dir> /verif/check <id> quick   for id in ' + ' '.join(checks_run),
    ],
    'quick_checks_run': checks_run,
    'history': history,
    'caught_by_quick_checks': caught,
    'caught': bool(caught),
}
json.dump(meta, open(os.path.join(dst, 'meta.json'), 'w'), indent=1)
print(dst, 'caught by', sorted(caught), 'of', len(checks_run), 'run')
