#!/usr/bin/env python3
"""Re-runs, for every kept seeded change, the quick check of its own property plus every check that
reported it before, against the CURRENT /verif, in scratch worktrees (never /repo), and rewrites
caught_by_quick_checks in its meta.json. usage: finalmatrix.py <worktree> [name-prefix...]"""
import json, glob, os, subprocess, sys, re
wt = sys.argv[1]
only = [a for a in sys.argv[2:] if not a.startswith('--')]
own_only = '--own-only' in sys.argv   # re-run only the check of the change's own property; keep what other checks reported when it was vetted
check = os.environ.get('VERIF_CHECK', '/verif/check')
env = dict(os.environ, GOFLAGS='-mod=mod', GOPROXY='off', GOSUMDB='off', GOTOOLCHAIN='local')
head = subprocess.run(['git', '-C', '/verif', 'rev-parse', '--short', 'HEAD'], capture_output=True, text=True).stdout.strip()
for d in sorted(glob.glob('/verif/seeded/*/')):
    name = os.path.basename(d.rstrip('/'))
    if only and not any(name.startswith(o) for o in only):
        continue
    mp = os.path.join(d, 'meta.json')
    m = json.load(open(mp))
    prop = m['property']
    ids = [prop] + [c for c in sorted(m.get('caught_by_quick_checks', {})) if c != prop]
    earlier = {}
    if own_only:
        earlier = {c: dict(v, vetted_with_an_earlier_version_of_the_checks=True) for c, v in m.get('caught_by_quick_checks', {}).items() if c != prop}
        ids = [prop]
    subprocess.run(['git', 'checkout', '-q', '--', '.'], cwd=wt, check=True)
    subprocess.run(['git', 'clean', '-fdq'], cwd=wt, check=True)
    r = subprocess.run(['git', 'apply', os.path.join(d, 'patch.diff')], cwd=wt)
    if r.returncode != 0:
        print(name, 'PATCH DOES NOT APPLY'); continue
    out = '/tmp/mut/final/' + name
    os.makedirs(out, exist_ok=True)
    caught = {}
    for cid in ids:
        e = dict(env, VERIF_REPO=wt, VERIF_OUT=out, VERIF_COVER='0')
        r = subprocess.run([check, cid, 'quick'], env=e, capture_output=True, text=True)
        open(os.path.join(out, 'check_%s.txt' % cid), 'w').write(r.stdout + r.stderr)
        if r.returncode != 0:
            mo = re.search(r'oracle="([^"]*)"', r.stdout)
            caught[cid] = {'violations_reported': len(re.findall(r'^VIOLATION', r.stdout, re.M)), 'first_oracle': mo.group(1) if mo else None,
                           'summary': r.stdout.strip().split('\n')[-1][:200], 'exit': r.returncode}
    caught.update(earlier)
    m['caught_by_quick_checks'] = caught
    m['caught'] = bool(caught)
    m['final_matrix'] = {'verif_commit': head, 'quick_checks_run': ids}
    json.dump(m, open(mp, 'w'), indent=1)
    print(name, 'caught by', sorted(caught), 'of', ids, flush=True)
subprocess.run(['git', 'checkout', '-q', '--', '.'], cwd=wt)
subprocess.run(['git', 'clean', '-fdq'], cwd=wt)
