#!/usr/bin/env python3
"""Mechanical mutation of rjson's generated machines and hand-written scanners, to measure what the
checks can and cannot see (self-assessment only; nothing here is registered in MANIFEST.json).

usage: automutate.py <worktree> <file> <func> <n> <seed> <check ids comma separated> [--suite]

For each of n pseudo-random single-site mutants inside function <func> of <file> (transition
retargeting, byte-constant shifts, comparison flips, dropped statements), the mutant is applied in the
scratch worktree, the named quick checks are run against it through VERIF_REPO, and the result is
recorded. With --suite, the repository's own test suite is also run on every surviving mutant (a
survivor that the suite kills is not a realistic change).
"""
import os, random, re, subprocess, sys, json, time

wt, fname, func, n, seed, checks = sys.argv[1], sys.argv[2], sys.argv[3], int(sys.argv[4]), int(sys.argv[5]), sys.argv[6].split(',')
run_suite = '--suite' in sys.argv
GENERAL = '--general' in sys.argv   # also boolean-operator swaps, constant shifts, dropped assignments / calls (hand-written code)
CHECK = os.environ.get('VERIF_CHECK', '/verif/check')
env = dict(os.environ, GOFLAGS='-mod=mod', GOPROXY='off', GOSUMDB='off', GOTOOLCHAIN='local')
path = os.path.join(wt, fname)
subprocess.run(['git', 'checkout', '-q', '--', '.'], cwd=wt, check=True)
src = open(path).read().split('\n')

# locate function
start = end = None
recv = None
if '.' in func:
    recv, func = func.split('.', 1)   # "ValueReader.ReadObject": the method, not the package-level function of the same name
for i, l in enumerate(src):
    if recv:
        if re.match(r'^func \(\w+ \*?%s\) %s\(' % (re.escape(recv), re.escape(func)), l):
            start = i
            break
    elif re.match(r'^func (\([^)]*\) )?%s\(' % re.escape(func), l):
        start = i
        break
if start is None:
    sys.exit('function not found')
for j in range(start + 1, len(src)):
    if src[j].startswith('}'):
        end = j
        break

# dispatch ranges to skip
skip = set()
i = start
while i < end:
    if re.match(r'^\s*_(again|resume):\s*$', src[i]):
        j = i + 1
        while j < end and not re.match(r'^\t}\s*$', src[j]) and not re.match(r'^\t\t}\s*$', src[j]):
            skip.add(j)
            j += 1
        i = j
    i += 1

labels = {'st': set(), 'tr': set()}
for i in range(start, end):
    m = re.match(r'^\s*(st|tr)(\d+):\s*$', src[i])
    if m:
        labels[m.group(1)].add(int(m.group(2)))

cands = []
for i in range(start, end):
    if i in skip:
        continue
    l = src[i]
    m = re.match(r'^(\s*)goto (st|tr)(\d+)\s*$', l)
    if m:
        cands.append(('retarget', i))
        continue
    m = re.match(r'^(\s*)case (\d+):\s*$', l)
    if m and int(m.group(2)) < 256:
        cands.append(('casebyte', i))
        continue
    if re.search(r'data\[p\] (<|>|<=|>=) \d+', l) or re.search(r'\d+ (<|<=) data\[p\]', l):
        cands.append(('cmp', i))
        continue
    if re.search(r'(==|!=|<=|>=|<|>) ', l) and not l.strip().startswith('//') and 'case' not in l and 'for ' not in l:
        cands.append(('cmpgen', i))
        continue
    if re.match(r'^\s*(p|top|cs|segStart|currentFieldStart|currentFieldEnd)\s*(=|\+=|-=|\+\+|--)', l) or re.match(r'^\s*stack\[top\] = \d+', l):
        cands.append(('stmt', i))
        continue
    if GENERAL:
        # hand-written code: more kinds of single-site slips
        if ' && ' in l or ' || ' in l:
            cands.append(('andor', i))
        if re.search(r'[^\w.]\d+\b', l) and not l.strip().startswith('//') and not l.strip().startswith('case'):
            cands.append(('num', i))
        if re.match(r'^\s*[\w.\[\]*]+(, [\w.\[\]*]+)* = [^=]', l):
            cands.append(('dropassign', i))
        elif re.match(r'^\s*[\w.]+\(.*\)\s*$', l):
            cands.append(('dropcall', i))

rng = random.Random(seed)
rng.shuffle(cands)
results = []
outdir = '/tmp/mut/auto/%s_%s_%d' % (os.path.basename(fname), func, seed)
os.makedirs(outdir, exist_ok=True)


def mutate(kind, i):
    l = src[i]
    if kind == 'retarget':
        m = re.match(r'^(\s*)goto (st|tr)(\d+)\s*$', l)
        pool = sorted(labels[m.group(2)] - {int(m.group(3))})
        if rng.random() < 0.3 and labels['st'] and labels['tr']:
            other = 'tr' if m.group(2) == 'st' else 'st'
            pool2 = sorted(labels[other])
            return '%sgoto %s%d' % (m.group(1), other, rng.choice(pool2))
        return '%sgoto %s%d' % (m.group(1), m.group(2), rng.choice(pool))
    if kind == 'casebyte':
        m = re.match(r'^(\s*)case (\d+):\s*$', l)
        v = int(m.group(2))
        nv = v + rng.choice([-1, 1]) if rng.random() < 0.6 else rng.randrange(256)
        if nv == v or nv < 0 or nv > 255:
            nv = (v + 1) % 256
        return '%scase %d:' % (m.group(1), nv)
    if kind in ('cmp', 'cmpgen'):
        ops = re.findall(r'(<=|>=|==|!=|<|>) ', l)
        if not ops:
            return None
        op = rng.choice(ops)
        swap = {'<': '<=', '<=': '<', '>': '>=', '>=': '>', '==': '!=', '!=': '=='}
        if kind == 'cmp' and rng.random() < 0.5:
            # shift the numeric constant instead
            nums = re.findall(r'\b(\d+)\b', l)
            nums = [x for x in nums if 0 < int(x) < 256]
            if nums:
                x = rng.choice(nums)
                return re.sub(r'\b%s\b' % x, str(int(x) + rng.choice([-1, 1])), l, count=1)
        return l.replace(op + ' ', swap[op] + ' ', 1)
    if kind == 'andor':
        return l.replace(' && ', ' || ', 1) if ' && ' in l else l.replace(' || ', ' && ', 1)
    if kind == 'num':
        nums = [m for m in re.finditer(r'(?<![\w.])(\d+)\b', l)]
        if not nums:
            return None
        m = rng.choice(nums)
        v = int(m.group(1))
        nv = v + rng.choice([-1, 1])
        if nv < 0:
            nv = v + 1
        return l[:m.start(1)] + str(nv) + l[m.end(1):]
    if kind in ('dropassign', 'dropcall'):
        return re.sub(r'^(\s*)', r'\1// dropped: ', l)
    if kind == 'stmt':
        m = re.match(r'^(\s*)stack\[top\] = (\d+)', l)
        if m:
            pool = sorted(labels['st'] - {int(m.group(2))})
            return '%sstack[top] = %d' % (m.group(1), rng.choice(pool))
        if '++' in l:
            return l.replace('++', '--')
        if '--' in l:
            return l.replace('--', '++')
        if '+=' in l:
            return l.replace('+=', '-=')
        if re.search(r'= p$', l):
            return l + ' + 1'
        return re.sub(r'^(\s*)', r'\1// dropped: ', l)
    return None


done = 0
for kind, i in cands:
    if done >= n:
        break
    new = mutate(kind, i)
    if not new or new == src[i]:
        continue
    msrc = list(src)
    msrc[i] = new
    open(path, 'w').write('\n'.join(msrc))
    b = subprocess.run(['go', 'build', './...'], cwd=wt, env=env, capture_output=True, text=True)
    if b.returncode != 0:
        continue
    done += 1
    rec = {'id': done, 'kind': kind, 'line': i + 1, 'old': src[i].strip(), 'new': new.strip(), 'caught_by': []}
    for cid in checks:
        t0 = time.time()
        e = dict(env, VERIF_REPO=wt, VERIF_OUT=outdir, VERIF_COVER='0')
        r = subprocess.run([CHECK, cid, 'quick'], env=e, capture_output=True, text=True)
        if r.returncode != 0:
            first = ''
            for ln in r.stdout.split('\n'):
                if 'oracle=' in ln:
                    first = ln.strip()[:160]
                    break
            rec['caught_by'].append('%s(exit%d) %s' % (cid, r.returncode, first))
            break
    if not rec['caught_by'] and run_suite:
        r = subprocess.run(['go', 'test', '-vet=off', '-count=1', '.', './internal/fp'], cwd=wt, env=env, capture_output=True, text=True)
        rec['suite'] = 'pass' if r.returncode == 0 else 'FAILS (not a realistic survivor)'
        if r.returncode == 0:
            subprocess.run('git diff > %s/survivor_%d.diff' % (outdir, done), cwd=wt, shell=True)
    results.append(rec)
    print(json.dumps(rec), flush=True)
subprocess.run(['git', 'checkout', '-q', '--', '.'], cwd=wt, check=True)
killed = sum(1 for r in results if r['caught_by'])
print('SUMMARY %s:%s mutants=%d killed=%d survivors=%d (suite passes on %d of them)' % (fname, func, len(results), killed, len(results) - killed, sum(1 for r in results if r.get('suite') == 'pass')))
json.dump(results, open(outdir + '/results.json', 'w'), indent=1)
