package main

import (
	"bufio"
	"fmt"
	"go/ast"
	"go/parser"
	"go/token"
	"os"
	"os/exec"
	"path/filepath"
	"regexp"
	"sort"
	"strconv"
	"strings"
	"time"

	"verif/internal/monitor"
)

const rjsonImport = "github.com/willabides/rjson/"

type funcCov struct {
	File            string         `json:"file"`
	Blocks          int            `json:"reachable_blocks"`
	Hit             int            `json:"blocks_hit"`
	Pct             float64        `json:"percent"`
	DispatchBlocks  int            `json:"dispatch_table_blocks_excluded"`
	DispatchHit     int            `json:"dispatch_table_blocks_hit"`
	Unreached       []string       `json:"unreached_examples,omitempty"`
	UnreachedShapes map[string]int `json:"unreached_by_shape,omitempty"`
}

type fileInfo struct {
	funcs    []funcRange
	dispatch [][2]int
	lines    []string
}

type funcRange struct {
	name       string
	start, end int
}

func parseRepoFile(path string) (*fileInfo, error) {
	fset := token.NewFileSet()
	src, err := os.ReadFile(path)
	if err != nil {
		return nil, err
	}
	f, err := parser.ParseFile(fset, path, src, 0)
	if err != nil {
		return nil, err
	}
	fi := &fileInfo{lines: strings.Split(string(src), "\n")}
	for _, d := range f.Decls {
		fd, ok := d.(*ast.FuncDecl)
		if !ok || fd.Body == nil {
			continue
		}
		name := fd.Name.Name
		if fd.Recv != nil && len(fd.Recv.List) > 0 {
			t := fd.Recv.List[0].Type
			if st, ok := t.(*ast.StarExpr); ok {
				t = st.X
			}
			if id, ok := t.(*ast.Ident); ok {
				name = id.Name + "." + name
			}
		}
		fi.funcs = append(fi.funcs, funcRange{name, fset.Position(fd.Pos()).Line, fset.Position(fd.End()).Line})
		ast.Inspect(fd.Body, func(n ast.Node) bool {
			ls, ok := n.(*ast.LabeledStmt)
			if !ok {
				return true
			}
			if ls.Label.Name == "_again" || ls.Label.Name == "_resume" {
				if sw, ok := ls.Stmt.(*ast.SwitchStmt); ok {
					fi.dispatch = append(fi.dispatch, [2]int{fset.Position(sw.Pos()).Line, fset.Position(sw.End()).Line})
				}
			}
			return true
		})
	}
	return fi, nil
}

var blockRe = regexp.MustCompile(`^(.*):(\d+)\.(\d+),(\d+)\.(\d+) (\d+) (\d+)$`)
var digitsRe = regexp.MustCompile(`\d+`)

// coveragePass runs some shards of the workload in the -cover build and summarises which
// blocks of the anchored functions were reached. It never influences the verdict.
func coveragePass(spec *monitor.Spec, prop, tier string, seed int64, nshards int, bindir, runDir string) (map[string]*funcCov, string) {
	bin := filepath.Join(bindir, "vcheck-cover")
	if _, err := os.Stat(bin); err != nil {
		return nil, "coverage build not available"
	}
	covDir := filepath.Join(runDir, "cov")
	os.MkdirAll(covDir, 0o755)
	use := nshards
	if tier != "thorough" && use > 4 {
		use = 4
	}
	type res struct{ err error }
	ch := make(chan res, use)
	for i := 0; i < use; i++ {
		go func(i int) {
			out := filepath.Join(runDir, fmt.Sprintf("cov-report-%d.json", i))
			cmd := exec.Command(bin, "worker", "-prop", prop, "-tier", tier, "-seed", fmt.Sprint(seed), "-shard", fmt.Sprint(i), "-nshards", fmt.Sprint(nshards), "-out", out)
			cmd.Env = append(os.Environ(), "GOCOVERDIR="+covDir)
			for _, e := range spec.Env {
				cmd.Env = append(cmd.Env, strings.ReplaceAll(e, "$RUNDIR", runDir))
			}
			done := make(chan error, 1)
			if err := cmd.Start(); err != nil {
				ch <- res{err}
				return
			}
			go func() { done <- cmd.Wait() }()
			select {
			case err := <-done:
				ch <- res{err}
			case <-time.After(2 * time.Hour):
				cmd.Process.Kill()
				ch <- res{fmt.Errorf("timeout")}
			}
		}(i)
	}
	failed := 0
	for i := 0; i < use; i++ {
		if r := <-ch; r.err != nil {
			failed++
		}
	}
	profile := filepath.Join(runDir, "cover.txt")
	cmd := exec.Command("go", "tool", "covdata", "textfmt", "-i="+covDir, "-o="+profile)
	cmd.Dir = verifDir
	if out, err := cmd.CombinedOutput(); err != nil {
		return nil, "covdata failed: " + err.Error() + " " + string(out)
	}
	summary, err := summarise(profile, spec.CoverFuncs)
	if err != nil {
		return nil, "coverage summary failed: " + err.Error()
	}
	note := fmt.Sprintf("coverage pass: %d of %d shards re-run in the -cover build (%d failed); block = one Go basic block, i.e. one transition group of one machine state; blocks inside the _again/_resume dispatch tables are excluded (they are per-state re-entry points, almost all unreachable by construction)", use, nshards, failed)
	return summary, note
}

func summarise(profile string, want []string) (map[string]*funcCov, error) {
	f, err := os.Open(profile)
	if err != nil {
		return nil, err
	}
	defer f.Close()
	files := map[string]*fileInfo{}
	out := map[string]*funcCov{}
	wanted := map[string]bool{}
	for _, w := range want {
		wanted[w] = true
	}
	sc := bufio.NewScanner(f)
	sc.Buffer(make([]byte, 1<<20), 1<<24)
	for sc.Scan() {
		line := sc.Text()
		if !strings.HasPrefix(line, rjsonImport) {
			continue
		}
		m := blockRe.FindStringSubmatch(line)
		if m == nil {
			continue
		}
		rel := strings.TrimPrefix(m[1], rjsonImport)
		fi, ok := files[rel]
		if !ok {
			fi, err = parseRepoFile(filepath.Join(repoDir, rel))
			if err != nil {
				files[rel] = nil
				continue
			}
			files[rel] = fi
		}
		if fi == nil {
			continue
		}
		sl, _ := strconv.Atoi(m[2])
		el, _ := strconv.Atoi(m[4])
		cnt, _ := strconv.Atoi(m[7])
		fn := ""
		for _, fr := range fi.funcs {
			if sl >= fr.start && sl <= fr.end {
				fn = fr.name
				break
			}
		}
		if fn == "" || (len(wanted) > 0 && !wanted[fn]) {
			continue
		}
		fc := out[fn]
		if fc == nil {
			fc = &funcCov{File: rel, UnreachedShapes: map[string]int{}}
			out[fn] = fc
		}
		inDispatch := false
		for _, d := range fi.dispatch {
			if sl >= d[0] && el <= d[1] {
				inDispatch = true
				break
			}
		}
		if inDispatch {
			fc.DispatchBlocks++
			if cnt > 0 {
				fc.DispatchHit++
			}
			continue
		}
		fc.Blocks++
		if cnt > 0 {
			fc.Hit++
		} else {
			txt := ""
			if sl-1 < len(fi.lines) {
				txt = strings.TrimSpace(fi.lines[sl-1])
			}
			if len(txt) > 70 {
				txt = txt[:70]
			}
			shape := digitsRe.ReplaceAllString(txt, "N")
			fc.UnreachedShapes[shape]++
			if len(fc.Unreached) < 12 {
				fc.Unreached = append(fc.Unreached, fmt.Sprintf("%s:%d %s", rel, sl, txt))
			}
		}
	}
	for _, fc := range out {
		if fc.Blocks > 0 {
			fc.Pct = float64(int(1000*float64(fc.Hit)/float64(fc.Blocks))) / 10
		}
		// keep only the most frequent shapes
		if len(fc.UnreachedShapes) > 8 {
			type kv struct {
				k string
				v int
			}
			var l []kv
			for k, v := range fc.UnreachedShapes {
				l = append(l, kv{k, v})
			}
			sort.Slice(l, func(i, j int) bool { return l[i].v > l[j].v })
			fc.UnreachedShapes = map[string]int{}
			for _, e := range l[:8] {
				fc.UnreachedShapes[e.k] = e.v
			}
		}
	}
	return out, nil
}
