// vcheck is both the driver (plans shards, spawns workers, merges reports, applies the
// known-findings file, writes evidence, prints the verdict) and the worker (one child
// process per shard running the monitors of one property).
package main

import (
	"encoding/json"
	"flag"
	"fmt"
	"os"
	"os/exec"
	"path/filepath"
	"runtime"
	"sort"
	"strconv"
	"strings"
	"sync"
	"syscall"
	"time"

	h "verif/internal/harness"
	"verif/internal/monitor"
)

// verifDir holds known_findings.jsonl; outDir receives evidence/ and replays/; repoDir is the rjson source tree
// (only read for the coverage summary - the binaries are already built against it).
var verifDir = envStr("VERIF_DIR", "/verif")
var outDir = envStr("VERIF_OUT", verifDir)
var repoDir = envStr("VERIF_REPO", "/repo")

func envStr(name, def string) string {
	if s := os.Getenv(name); s != "" {
		return s
	}
	return def
}

func main() {
	if len(os.Args) < 2 {
		fmt.Fprintln(os.Stderr, "usage: vcheck drive|worker|replay ...")
		os.Exit(2)
	}
	switch os.Args[1] {
	case "drive":
		os.Exit(drive(os.Args[2:]))
	case "worker":
		os.Exit(worker(os.Args[2:]))
	case "replay":
		os.Exit(replay(os.Args[2:]))
	case "list":
		for _, p := range monitor.Specs() {
			fmt.Println(p.ID)
		}
	default:
		fmt.Fprintln(os.Stderr, "unknown command", os.Args[1])
		os.Exit(2)
	}
}

// ---------------------------------------------------------------- worker

func worker(args []string) int {
	fs := flag.NewFlagSet("worker", flag.ExitOnError)
	prop := fs.String("prop", "", "property id")
	tier := fs.String("tier", "quick", "quick|thorough")
	seed := fs.Int64("seed", 1, "seed")
	shard := fs.Int("shard", 0, "shard index")
	nshards := fs.Int("nshards", 1, "number of shards")
	out := fs.String("out", "", "report file")
	lastcase := fs.String("lastcase", "", "last-case file")
	fs.Parse(args)
	spec := monitor.SpecByID(*prop)
	if spec == nil {
		fmt.Fprintln(os.Stderr, "unknown property", *prop)
		return 2
	}
	rec := h.NewRecorder(*prop, *shard, *seed, *tier)
	ctx := &monitor.Ctx{Prop: *prop, Tier: *tier, Seed: *seed, Shard: *shard, NShards: *nshards, Rec: rec}
	if *lastcase != "" {
		lc, err := h.OpenLastCase(*lastcase)
		if err != nil {
			fmt.Fprintln(os.Stderr, "lastcase:", err)
			return 2
		}
		ctx.LC = lc
	}
	if spec.StallSeconds > 0 && os.Getenv("VERIF_NO_WATCHDOG") == "" {
		spec.StallSeconds = int(envInt("VERIF_STALL_S", int64(spec.StallSeconds)))
		go func() {
			last := ctx.Seq()
			lastChange := time.Now()
			for {
				time.Sleep(2 * time.Second)
				if cur := ctx.Seq(); cur != last {
					last, lastChange = cur, time.Now()
				} else if time.Since(lastChange) > time.Duration(spec.StallSeconds)*time.Second {
					fmt.Fprintf(os.Stderr, "STALL: no new case for %d s (case #%d)\n", spec.StallSeconds, cur)
					buf := make([]byte, 1<<16)
					n := runtime.Stack(buf, true)
					os.Stderr.Write(buf[:n])
					os.Exit(97)
				}
			}
		}()
	}
	spec.Run(ctx)
	rep := rec.Finish()
	if err := rep.WriteFile(*out); err != nil {
		fmt.Fprintln(os.Stderr, "write report:", err)
		return 2
	}
	return 0
}

// ---------------------------------------------------------------- replay

func replay(args []string) int {
	fs := flag.NewFlagSet("replay", flag.ExitOnError)
	file := fs.String("file", "", "replay file")
	fs.Parse(args)
	b, err := os.ReadFile(*file)
	if err != nil {
		fmt.Fprintln(os.Stderr, err)
		return 2
	}
	var v h.Violation
	if err := json.Unmarshal(b, &v); err != nil {
		fmt.Fprintln(os.Stderr, err)
		return 2
	}
	spec := monitor.SpecByID(v.Property)
	if spec == nil {
		fmt.Fprintln(os.Stderr, "unknown property", v.Property)
		return 2
	}
	tier := v.Tier
	if tier == "" {
		tier = "quick"
	}
	rec := h.NewRecorder(v.Property, 0, v.Seed, tier)
	ctx := &monitor.Ctx{Prop: v.Property, Tier: tier, Seed: v.Seed, Shard: 0, NShards: 1, Rec: rec, Replay: &v}
	fmt.Printf("replaying %s: oracle=%q entry=%s family=%s\n  desc: %s\n  input: %s\n  script: %s\n  recorded expected: %s\n  recorded observed: %s\n",
		v.Property, v.Oracle, v.Entry, v.Family, v.Desc, v.InputQ, v.Script, v.Expected, v.Observed)
	spec.Run(ctx)
	rep := rec.Finish()
	if len(rep.Violations) == 0 {
		fmt.Println("replay: no violation on the current tree")
		return 0
	}
	for _, x := range rep.Violations {
		fmt.Printf("replay: VIOLATED oracle=%q entry=%s\n  expected: %s\n  observed: %s\n", x.Oracle, x.Entry, x.Expected, x.Observed)
		if x.Crash != "" {
			fmt.Println(x.Crash)
		}
	}
	return 1
}

// ---------------------------------------------------------------- driver

type knownFinding struct {
	Status   string `json:"status"` // open | fixed
	Property string `json:"property"`
	Oracle   string `json:"oracle,omitempty"`   // substring match on the violation's oracle
	Entry    string `json:"entry,omitempty"`    // exact entry point
	Contains string `json:"contains,omitempty"` // substring of key
	What     string `json:"what"`
	Commit   string `json:"commit,omitempty"`
}

func loadKnown() []knownFinding {
	var out []knownFinding
	b, err := os.ReadFile(filepath.Join(verifDir, "known_findings.jsonl"))
	if err != nil {
		return nil
	}
	for _, line := range strings.Split(string(b), "\n") {
		line = strings.TrimSpace(line)
		if line == "" || strings.HasPrefix(line, "#") {
			continue
		}
		var k knownFinding
		if json.Unmarshal([]byte(line), &k) == nil {
			out = append(out, k)
		}
	}
	return out
}

func (k *knownFinding) matches(v *h.Violation) bool {
	if k.Status != "open" || k.Property != v.Property {
		return false
	}
	if k.Oracle != "" && !strings.Contains(v.Oracle, k.Oracle) {
		return false
	}
	if k.Entry != "" && k.Entry != v.Entry {
		return false
	}
	if k.Contains != "" && !strings.Contains(v.Key, k.Contains) {
		return false
	}
	return k.Oracle != "" || k.Entry != "" || k.Contains != ""
}

func envInt(name string, def int64) int64 {
	if s := os.Getenv(name); s != "" {
		if v, err := strconv.ParseInt(s, 10, 64); err == nil {
			return v
		}
	}
	return def
}

type shardResult struct {
	shard    int
	rep      *h.Report
	crash    *h.Violation
	timedOut bool
	errText  string
}

func drive(args []string) int {
	fs := flag.NewFlagSet("drive", flag.ExitOnError)
	prop := fs.String("prop", "", "property id")
	tier := fs.String("tier", "quick", "quick|thorough")
	seedF := fs.Int64("seed", envInt("VERIF_SEED", 1), "seed")
	shardsF := fs.Int("shards", 0, "override number of shards")
	bindir := fs.String("bindir", envStr("VERIF_BUILD", filepath.Join(verifDir, ".build")), "directory with vcheck binaries")
	fs.Parse(args)
	spec := monitor.SpecByID(*prop)
	if spec == nil {
		fmt.Fprintln(os.Stderr, "unknown property", *prop)
		return 2
	}
	start := time.Now()
	seed := *seedF
	nshards := spec.Shards
	if *tier == "thorough" && spec.ShardsThorough > 0 {
		nshards = spec.ShardsThorough
	}
	if nshards == 0 {
		nshards = 14
		if n := runtime.NumCPU() - 2; n < nshards && n >= 1 {
			nshards = n
		}
	}
	if *shardsF > 0 {
		nshards = *shardsF
	}
	runDir := filepath.Join(*bindir, "run", *prop+"-"+*tier)
	os.RemoveAll(runDir)
	if err := os.MkdirAll(runDir, 0o755); err != nil {
		fmt.Fprintln(os.Stderr, err)
		return 2
	}
	bin := filepath.Join(*bindir, "vcheck")
	if spec.Binary != "" {
		bin = filepath.Join(*bindir, "vcheck-"+spec.Binary)
	}
	timeout := 20 * time.Minute
	if *tier == "thorough" {
		timeout = 3 * time.Hour
	}

	results := make([]shardResult, nshards)
	var wg sync.WaitGroup
	for i := 0; i < nshards; i++ {
		wg.Add(1)
		go func(i int) {
			defer wg.Done()
			results[i] = runShard(bin, spec, *prop, *tier, seed, i, nshards, runDir, timeout)
		}(i)
	}
	// the sampled 32-bit shard (see below) runs at the same time as the native shards
	var sample386 *shardResult
	sample386Pick := -1
	if spec.Extra386Shards == 0 && !spec.No386Sample && spec.Binary == "" {
		bin386 := filepath.Join(*bindir, "vcheck-386")
		if _, err := os.Stat(bin386); err == nil {
			if _, err := exec.Command(bin386, "list").CombinedOutput(); err == nil {
				runDir386 := filepath.Join(runDir, "386")
				os.MkdirAll(runDir386, 0o755)
				sample386Pick = int((seed*5 + 3) % int64(nshards))
				if sample386Pick < 0 {
					sample386Pick = -sample386Pick
				}
				wg.Add(1)
				go func() {
					defer wg.Done()
					r := runShard(bin386, spec, *prop, *tier, seed, sample386Pick, nshards, runDir386, timeout)
					sample386 = &r
				}()
			}
		}
	}
	wg.Wait()

	// every other check (except the race build and the allocation measurements) runs ONE of its
	// shards once more on the 32-bit build: a sample, not a second pass, but enough to notice code
	// that only works where uint is 64 bits wide (seeded change C02r8-m2: bit-set tables built with
	// 1 << (c & 63) on a uint)
	note386 := ""
	if spec.Extra386Shards == 0 && !spec.No386Sample && spec.Binary == "" {
		if sample386 == nil {
			note386 = "sampled 32-bit pass not run: no GOARCH=386 build of the checker, or it does not execute here"
		} else {
			r := *sample386
			var n386 int64
			if r.rep != nil {
				n386 = r.rep.Evaluations
				only386(r.rep)
			}
			r.shard += 1000
			results = append(results, r)
			note386 = fmt.Sprintf("sampled 32-bit pass: shard %d of %d once more on a GOARCH=386 build of checker and library, %d monitored executions (included in the execution total, not in the distinct-case counts)", sample386Pick, nshards, n386)
		}
		fmt.Println(note386)
	}
	if spec.Extra386Shards > 0 {
		bin386 := filepath.Join(*bindir, "vcheck-386")
		runDir386 := filepath.Join(runDir, "386")
		os.MkdirAll(runDir386, 0o755)
		if _, err := os.Stat(bin386); err != nil {
			note386 = "32-bit pass not run: no GOARCH=386 build of the checker (" + err.Error() + ")"
		} else if out, err := exec.Command(bin386, "list").CombinedOutput(); err != nil {
			note386 = "32-bit pass not run: the GOARCH=386 build does not execute here (" + err.Error() + " " + strings.TrimSpace(string(out)) + ")"
		} else {
			extra := make([]shardResult, spec.Extra386Shards)
			var wg2 sync.WaitGroup
			for i := range extra {
				wg2.Add(1)
				go func(i int) {
					defer wg2.Done()
					extra[i] = runShard(bin386, spec, *prop, *tier, seed, i, spec.Extra386Shards, runDir386, timeout)
				}(i)
			}
			wg2.Wait()
			var n386 int64
			for i := range extra {
				if extra[i].rep != nil {
					n386 += extra[i].rep.Evaluations
					only386(extra[i].rep)
				}
				extra[i].shard += 1000
			}
			results = append(results, extra...)
			note386 = fmt.Sprintf("32-bit pass: the whole workload again on a GOARCH=386 build of checker and library, %d shards, %d monitored executions (included in the execution total, not in the distinct-case counts)", spec.Extra386Shards, n386)
		}
		fmt.Println(note386)
	}

	merged := &h.Report{Property: *prop, Counters: map[string]int64{}}
	inconclusive := []string{}
	for _, r := range results {
		if r.rep != nil {
			merged.Merge(r.rep)
		}
		if r.crash != nil {
			merged.Violations = append(merged.Violations, *r.crash)
			merged.NViolations++
		}
		if r.timedOut {
			inconclusive = append(inconclusive, fmt.Sprintf("shard %d: watchdog fired (%s)", r.shard, r.errText))
		} else if r.rep == nil && r.crash == nil {
			inconclusive = append(inconclusive, fmt.Sprintf("shard %d: no report (%s)", r.shard, r.errText))
		}
	}
	if note386 != "" {
		merged.Notes = append(merged.Notes, note386)
	}
	if spec.Collect != nil {
		spec.Collect(runDir, merged, seed)
	}
	if spec.Post != nil {
		spec.Post(merged, *tier)
	}
	if len(merged.Inconsistent) > 0 {
		for i, v := range merged.Inconsistent {
			if i < 5 {
				fmt.Printf("HARNESS-INCONSISTENT property=%s %s input=%s expected=%s observed=%s\n", *prop, v.Oracle, v.InputQ, v.Expected, v.Observed)
			}
		}
		inconclusive = append(inconclusive, fmt.Sprintf("reference model disagrees with encoding/json or strconv on %d inputs", len(merged.Inconsistent)))
	}
	floor := spec.MinEvals
	if *tier == "thorough" {
		floor *= 4
	}
	if merged.Evaluations < floor {
		inconclusive = append(inconclusive, fmt.Sprintf("monitors observed %d executions, below the floor %d", merged.Evaluations, floor))
	}
	for name, min := range spec.MinCounters {
		if merged.Counters[name] < min {
			inconclusive = append(inconclusive, fmt.Sprintf("counter %s=%d below its floor %d (monitor did not reach what it is meant to watch)", name, merged.Counters[name], min))
		}
	}

	// de-duplicate violations by key, apply known findings
	known := loadKnown()
	seen := map[string]bool{}
	var fresh []h.Violation
	knownHit := map[string]int{}
	sort.SliceStable(merged.Violations, func(i, j int) bool { return len(merged.Violations[i].InputB64) < len(merged.Violations[j].InputB64) })
	for _, v := range merged.Violations {
		if seen[v.Key] {
			continue
		}
		seen[v.Key] = true
		matched := false
		for ki := range known {
			if known[ki].matches(&v) {
				knownHit[known[ki].What]++
				matched = true
				break
			}
		}
		if !matched {
			fresh = append(fresh, v)
		}
	}
	for what, n := range knownHit {
		fmt.Printf("KNOWN-FINDING: property=%s %s (%d witnesses this run)\n", *prop, what, n)
	}
	replayDir := filepath.Join(outDir, "replays")
	os.MkdirAll(replayDir, 0o755)
	for i, v := range fresh {
		if i >= 20 {
			break
		}
		name := fmt.Sprintf("%s-%s-%016x.json", *prop, *tier, h.HashString(v.Key))
		path := filepath.Join(replayDir, name)
		b, _ := json.MarshalIndent(v, "", " ")
		os.WriteFile(path, b, 0o644)
		fmt.Printf("VIOLATION property=%s replay=%s\n", *prop, path)
		fmt.Printf("  oracle=%q entry=%s family=%s\n  input=%s\n  how=%s\n  script=%s\n  expected=%s\n  observed=%s\n", v.Oracle, v.Entry, v.Family, v.InputQ, v.Desc, v.Script, v.Expected, v.Observed)
		if v.Crash != "" {
			cr := v.Crash
			if len(cr) > 1500 {
				cr = cr[:1500]
			}
			fmt.Println("  crash: " + strings.ReplaceAll(cr, "\n", "\n    "))
		}
	}

	var covSummary map[string]*funcCov
	covNote := ""
	if os.Getenv("VERIF_COVER") != "0" && len(spec.CoverFuncs) > 0 && spec.Binary == "" {
		covSummary, covNote = coveragePass(spec, *prop, *tier, seed, nshards, *bindir, runDir)
	}
	wall := time.Since(start).Seconds()
	verdict := "held"
	if len(fresh) > 0 {
		verdict = "violated"
	} else if len(inconclusive) > 0 {
		verdict = "inconclusive"
	}
	writeEvidence(spec, merged, *tier, seed, wall, len(fresh), verdict, inconclusive, nshards, knownHit, covSummary, covNote)
	fmt.Printf("%s %s seed=%d: %s — %d distinct cases (%d generated duplicates skipped), %d monitored executions, %d non-trivial, %d violations, %.1fs\n",
		*prop, *tier, seed, verdict, merged.Cases, merged.Duplicates, merged.Evaluations, merged.Nontrivial, len(fresh), wall)
	switch verdict {
	case "violated":
		return 1
	case "inconclusive":
		for _, s := range inconclusive {
			fmt.Printf("INCONCLUSIVE property=%s reason=%s\n", *prop, s)
		}
		return 3
	}
	return 0
}

// only386 keeps a 32-bit shard's executions, violations and samples but not its case counts: its
// inputs are the same inputs as the native pass's, so they are not additional DISTINCT cases; the
// named counters are kept under a prefix so that they do not inflate the native ones.
func only386(rep *h.Report) {
	rep.Counters["cases_run_again_on_the_386_build"] += rep.Cases
	rep.Cases, rep.Nontrivial, rep.Duplicates = 0, 0, 0
	pref := map[string]int64{}
	for k, v := range rep.Counters {
		if k == "cases_run_again_on_the_386_build" {
			pref[k] = v
		} else {
			pref["386_build: "+k] = v
		}
	}
	rep.Counters = pref
}

func runShard(bin string, spec *monitor.Spec, prop, tier string, seed int64, i, n int, runDir string, timeout time.Duration) shardResult {
	res := shardResult{shard: i}
	out := filepath.Join(runDir, fmt.Sprintf("report-%d.json", i))
	lc := filepath.Join(runDir, fmt.Sprintf("lastcase-%d.bin", i))
	logf := filepath.Join(runDir, fmt.Sprintf("log-%d.txt", i))
	lf, _ := os.Create(logf)
	defer lf.Close()
	cmd := exec.Command(bin, "worker", "-prop", prop, "-tier", tier, "-seed", fmt.Sprint(seed), "-shard", fmt.Sprint(i), "-nshards", fmt.Sprint(n), "-out", out, "-lastcase", lc)
	cmd.Stdout = lf
	cmd.Stderr = lf
	cmd.Env = append(os.Environ(), "GOTRACEBACK=single", "VERIF_RUNDIR="+runDir)
	for _, e := range spec.Env {
		cmd.Env = append(cmd.Env, strings.ReplaceAll(e, "$RUNDIR", runDir))
	}
	if err := cmd.Start(); err != nil {
		res.errText = err.Error()
		return res
	}
	done := make(chan error, 1)
	go func() { done <- cmd.Wait() }()
	var err error
	select {
	case err = <-done:
	case <-time.After(timeout):
		cmd.Process.Signal(syscall.SIGQUIT)
		select {
		case <-done:
		case <-time.After(10 * time.Second):
			cmd.Process.Kill()
			<-done
		}
		res.timedOut = true
		res.errText = "timeout after " + timeout.String()
		os.Remove(lc)
		return res
	}
	if rep, rerr := h.ReadReport(out); rerr == nil {
		res.rep = rep
	}
	if ee, ok := err.(*exec.ExitError); ok && ee.ExitCode() == 97 {
		// stall watchdog fired: confirm by replaying the single logged case alone under a generous limit
		_, meta, input, lerr := h.ReadLastCase(lc)
		os.Remove(lc)
		res.errText = "stall watchdog fired"
		if lerr != nil {
			res.timedOut = true
			return res
		}
		v := h.Violation{Property: prop, Oracle: "non-termination (stall confirmed by single-case replay)", Entry: strings.TrimSpace(meta), Family: "lastcase", InputB64: h.B64(input), InputQ: h.Quote(input), Seed: seed, Tier: tier}
		v.Key = "hang|" + v.Entry + "|" + v.InputQ
		rf := filepath.Join(runDir, fmt.Sprintf("stall-%d.json", i))
		b, _ := json.Marshal(v)
		os.WriteFile(rf, b, 0o644)
		rc := exec.Command(bin, "replay", "-file", rf)
		rc.Env = append(os.Environ(), "VERIF_NO_WATCHDOG=1")
		rdone := make(chan error, 1)
		if rc.Start() == nil {
			go func() { rdone <- rc.Wait() }()
			select {
			case <-rdone:
				res.timedOut = true // replay finished: the stall is not confirmed => inconclusive
				res.errText = "stall watchdog fired but the single-case replay finished"
			case <-time.After(time.Duration(envInt("VERIF_CONFIRM_S", 600)) * time.Second):
				rc.Process.Kill()
				<-rdone
				res.crash = &v
			}
		} else {
			res.timedOut = true
		}
		return res
	}
	if err != nil {
		// the child died: attribute to the last case it logged
		lf.Sync()
		logb, _ := os.ReadFile(logf)
		tail := string(logb)
		if len(tail) > 4000 {
			tail = tail[:2000] + "\n...\n" + tail[len(tail)-2000:]
		}
		_, meta, input, lerr := h.ReadLastCase(lc)
		v := &h.Violation{Property: prop, Oracle: "process died (fatal error / signal)", Entry: strings.TrimSpace(meta), Seed: seed, Tier: tier,
			Observed: err.Error(), Crash: tail}
		if lerr == nil {
			v.InputB64 = h.B64(input)
			v.InputQ = h.Quote(input)
			v.Family = "lastcase"
		}
		v.Key = "crash|" + v.Entry + "|" + v.InputQ
		res.crash = v
		res.errText = err.Error()
	}
	os.Remove(lc)
	return res
}

func writeEvidence(spec *monitor.Spec, rep *h.Report, tier string, seed int64, wall float64, nviol int, verdict string, inconclusive []string, nshards int, knownHit map[string]int, codeCov map[string]*funcCov, covNote string) {
	cov := map[string]interface{}{
		"evaluations":         rep.Evaluations,
		"distinct_nontrivial": rep.Nontrivial,
		"rule":                spec.Rule,
		"samples":             rep.Samples,
		"distinct_cases":      rep.Cases,
		"duplicates_skipped":  rep.Duplicates,
		"counters":            rep.Counters,
		"verdict":             verdict,
		"shards":              nshards,
	}
	if len(rep.Floats) > 0 {
		cov["measurements"] = rep.Floats
	}
	if len(rep.Sets) > 0 {
		sizes := map[string]int{}
		sets := map[string][]string{}
		for k, v := range rep.Sets {
			sizes[k] = len(v)
			if len(v) > 400 {
				v = v[:400]
			}
			sets[k] = v
		}
		cov["distinct_observed_sizes"] = sizes
		cov["distinct_observed"] = sets
	}
	if len(rep.Notes) > 0 {
		cov["notes"] = rep.Notes
	}
	if len(inconclusive) > 0 {
		cov["inconclusive_reasons"] = inconclusive
	}
	if len(knownHit) > 0 {
		cov["known_findings_hit"] = knownHit
	}
	if codeCov != nil {
		tb, th := 0, 0
		for _, fc := range codeCov {
			tb += fc.Blocks
			th += fc.Hit
		}
		cov["code_reached_in_rjson"] = map[string]interface{}{"note": covNote, "functions": codeCov, "reachable_blocks_total": tb, "blocks_hit_total": th,
			"what": "which basic blocks (machine transitions, float-conversion branches) of the anchored functions the workload drove; evidence of reach only, never a verdict"}
	} else if covNote != "" {
		cov["code_reached_in_rjson"] = map[string]interface{}{"note": covNote}
	}
	if spec.Exhaustive != "" {
		cov["exhaustive_part"] = spec.Exhaustive
	}
	if len(rep.Samples) == 0 {
		cov["samples"] = []interface{}{"(no sample recorded)"}
	}
	ev := map[string]interface{}{
		"property_id": spec.ID,
		"tier":        tier,
		"seed":        seed,
		"level":       "exploration",
		"coverage":    cov,
		"assumptions": spec.Assumptions,
		"wall_s":      wall,
		"violations":  nviol,
	}
	b, _ := json.MarshalIndent(ev, "", " ")
	os.MkdirAll(filepath.Join(outDir, "evidence"), 0o755)
	os.WriteFile(filepath.Join(outDir, "evidence", spec.ID+".json"), b, 0o644)
}
